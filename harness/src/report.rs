//! Evidence files, known findings, replay artefacts, exit codes (DESIGN §9).
use crate::explore::Finding;
use serde_json::{json, Value};
use std::time::Instant;

pub const VERIF_DIR: &str = env!("ZV_VERIF_DIR");

pub fn verif_path(rel: &str) -> std::path::PathBuf {
    std::path::Path::new(VERIF_DIR).join(rel)
}

#[derive(Clone, Debug)]
pub struct Known {
    pub property: String,
    pub fingerprint: String,
    pub what: String,
}

/// known_findings.txt: lines `known: property=<id> fingerprint=<text up to ' :: '> :: <what fails>`
/// and `fixed: property=<id> <commit> <what failed>` (fixed entries suppress nothing).
pub fn load_known() -> Vec<Known> {
    let mut out = vec![];
    let text = std::fs::read_to_string(verif_path("known_findings.txt")).unwrap_or_default();
    for line in text.lines() {
        let line = line.trim();
        if let Some(rest) = line.strip_prefix("known:") {
            let rest = rest.trim();
            let (head, what) = rest.split_once(" :: ").unwrap_or((rest, ""));
            let mut property = String::new();
            let mut fingerprint = String::new();
            if let Some(p) = head.strip_prefix("property=") {
                if let Some((pid, fp)) = p.split_once(" fingerprint=") {
                    property = pid.trim().to_string();
                    fingerprint = fp.trim().to_string();
                }
            }
            if !property.is_empty() {
                out.push(Known { property, fingerprint, what: what.to_string() });
            }
        }
    }
    out
}

/// A violation in a form every engine can produce.
#[derive(Clone, Debug)]
pub struct Violation {
    pub fingerprint: String,
    pub detail: String,
    /// JSON body of the replay artefact
    pub replay: Value,
}

impl From<&Finding> for Violation {
    fn from(f: &Finding) -> Self {
        Violation {
            fingerprint: f.fingerprint.clone(),
            detail: f.detail.clone(),
            replay: json!({"engine": "actorcheck", "cfg": f.cfg, "actions": f.actions, "cfg_short": f.cfg.short()}),
        }
    }
}

pub struct Report {
    pub property: String,
    pub tier: String,
    pub seed: i64,
    pub level: String,
    pub t0: Instant,
    pub coverage: serde_json::Map<String, Value>,
    pub assumptions: Vec<String>,
    pub violations: Vec<Violation>,
    pub machinery_errors: Vec<String>,
}

pub fn tier() -> String {
    let mut tier = std::env::var("VERIF_TIER").unwrap_or_else(|_| "quick".into());
    let args: Vec<String> = std::env::args().collect();
    for i in 0..args.len() {
        if args[i] == "--tier" && i + 1 < args.len() {
            tier = args[i + 1].clone();
        }
    }
    if tier != "thorough" {
        tier = "quick".into();
    }
    tier
}

impl Report {
    pub fn new(property: &str, level: &str) -> Report {
        let seed = std::env::var("VERIF_SEED").ok().and_then(|s| s.parse().ok()).unwrap_or(0);
        Report {
            property: property.into(),
            tier: tier(),
            seed,
            level: level.into(),
            t0: Instant::now(),
            coverage: serde_json::Map::new(),
            assumptions: vec![],
            violations: vec![],
            machinery_errors: vec![],
        }
    }
    pub fn thorough(&self) -> bool {
        self.tier == "thorough"
    }
    pub fn set(&mut self, k: &str, v: Value) {
        self.coverage.insert(k.into(), v);
    }
    pub fn add_u64(&mut self, k: &str, n: u64) {
        let cur = self.coverage.get(k).and_then(|v| v.as_u64()).unwrap_or(0);
        self.coverage.insert(k.into(), json!(cur + n));
    }
    pub fn push_sample(&mut self, v: Value) {
        let e = self.coverage.entry("samples".to_string()).or_insert_with(|| json!([]));
        if let Some(a) = e.as_array_mut() {
            if a.len() < 12 {
                a.push(v);
            }
        }
    }
    pub fn violation(&mut self, fingerprint: impl Into<String>, detail: impl Into<String>, replay: Value) {
        let fingerprint = fingerprint.into();
        if self.violations.iter().any(|v| v.fingerprint == fingerprint) {
            return;
        }
        self.violations.push(Violation { fingerprint, detail: detail.into(), replay });
    }
    pub fn add_findings<'a>(&mut self, fs: impl IntoIterator<Item = &'a Finding>) {
        for f in fs {
            let v: Violation = f.into();
            match self.violations.iter_mut().find(|x| x.fingerprint == v.fingerprint) {
                Some(old) => {
                    let old_len = old.replay["actions"].as_array().map(|a| a.len()).unwrap_or(usize::MAX);
                    if f.actions.len() < old_len {
                        *old = v;
                    }
                }
                None => self.violations.push(v),
            }
        }
    }

    /// Write evidence, print KNOWN-FINDING / VIOLATION lines, return the exit code.
    pub fn finish(mut self) -> i32 {
        let known = load_known();
        let mut unlisted = vec![];
        let mut matched = vec![];
        for v in &self.violations {
            match known.iter().find(|k| k.property == self.property && k.fingerprint == v.fingerprint) {
                Some(k) => matched.push((k.clone(), v.clone())),
                None => unlisted.push(v.clone()),
            }
        }
        self.coverage.insert("known_findings_matched".into(), json!(matched.iter().map(|(k, _)| k.fingerprint.clone()).collect::<Vec<_>>()));
        if !self.coverage.contains_key("samples") {
            self.coverage.insert("samples".into(), json!([]));
        }
        let wall = self.t0.elapsed().as_secs_f64();
        let ev = json!({
            "property_id": self.property,
            "tier": self.tier,
            "seed": self.seed,
            "level": self.level,
            "coverage": Value::Object(self.coverage.clone()),
            "assumptions": self.assumptions,
            "wall_s": wall,
            "violations": unlisted.len(),
        });
        let dir = verif_path("evidence");
        let _ = std::fs::create_dir_all(&dir);
        let path = dir.join(format!("{}.json", self.property));
        std::fs::write(&path, serde_json::to_string_pretty(&ev).unwrap()).expect("write evidence");
        for (k, v) in &matched {
            println!("KNOWN-FINDING: property={} {} [{}] — {}", self.property, k.what, k.fingerprint, first_line(&v.detail));
        }
        if !self.machinery_errors.is_empty() {
            for e in &self.machinery_errors {
                eprintln!("MACHINERY-ERROR: {}", e);
            }
            // a part of the check broke down; violations established by the parts that ran to their end are
            // still reported (each carries its own replay artefact); with none, the run is a machinery exit
            if unlisted.is_empty() {
                return 2;
            }
        }
        if unlisted.is_empty() {
            println!(
                "OK property={} tier={} states={} transitions={} wall={:.1}s",
                self.property,
                self.tier,
                self.coverage.get("states").and_then(|v| v.as_u64()).unwrap_or(0),
                self.coverage.get("transitions").and_then(|v| v.as_u64()).unwrap_or(0),
                wall
            );
            return 0;
        }
        let rdir = verif_path("replays");
        let _ = std::fs::create_dir_all(&rdir);
        for v in &unlisted {
            let mut h = std::collections::hash_map::DefaultHasher::new();
            use std::hash::{Hash, Hasher};
            v.fingerprint.hash(&mut h);
            self.property.hash(&mut h);
            let file = rdir.join(format!("{}-{:012x}.json", self.property, h.finish() & 0xffff_ffff_ffff));
            let body = json!({"property": self.property, "fingerprint": v.fingerprint, "detail": v.detail, "replay": v.replay});
            std::fs::write(&file, serde_json::to_string_pretty(&body).unwrap()).expect("write replay");
            println!("VIOLATION property={} replay={}", self.property, file.display());
            println!("  fingerprint: {}", v.fingerprint);
            for l in v.detail.lines().take(30) {
                println!("  {}", l);
            }
        }
        1
    }
}

fn first_line(s: &str) -> String {
    s.lines().next().unwrap_or("").chars().take(200).collect()
}
