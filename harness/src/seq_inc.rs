//! C02 / C03 / C13 (behaviour half): the real incremental runner on real files against a
//! reference record model, over all short histories of file-system operations.
use crate::report::Report;
use crate::seq_fs::{norm_exts, ref_list};
use crate::sequtil::*;
use serde_json::json;
use std::collections::{BTreeMap, BTreeSet, HashMap};
use std::path::{Path, PathBuf};
use std::sync::atomic::{AtomicU64, Ordering};
use zinoma::verif_api::domain::{self, Resources};
use zinoma::verif_api::engine::incremental::{self, IncrementalRunResult};
use zinoma::verif_api::engine::BuildTerminationReport;
use zinoma::verif_api::{ir, yaml};

// ---------------------------------------------------------------------------------------
// scenario = a project layout on disk + the target under test

#[derive(Clone, Debug)]
pub struct Layout {
    pub name: &'static str,
    /// (project sub-directory relative to the scratch root, project name, yaml text of the targets)
    pub projects: Vec<(&'static str, Option<&'static str>, &'static str)>,
    /// target under test (qualified when not in the root project)
    pub target: &'static str,
    /// initial files: (relative path, content)
    pub files: Vec<(&'static str, &'static str)>,
    /// files the script of the target under test writes (relative to the scratch root)
    pub writes: Vec<&'static str>,
}

pub fn big_content() -> String {
    let mut s = String::new();
    for i in 0..2000 {
        s += &format!("line {:05}\n", i);
    }
    s
}

pub fn layouts() -> Vec<Layout> {
    let common: Vec<(&str, &str)> = vec![("src/a.txt", "alpha"), ("src/b.csv", "bravo"), ("src/sub/c.txt", "charlie"), ("src/sub/deep/d.txt", "delta"), ("src/e.min.txt", "echo: a dot in the stem"), ("v.txt", "v-one"), ("other/a.txt", "not declared")];
    let mk = |name: &'static str, yaml: &'static str, writes: Vec<&'static str>| Layout { name, projects: vec![("", None, yaml)], target: "t", files: common.clone(), writes };
    vec![
        mk("file-path", "t:\n  build: ':'\n  input: [{paths: [src/a.txt]}]\n  output: [{paths: [out/o.txt]}]\n", vec!["out/o.txt"]),
        mk("directory", "t:\n  build: ':'\n  input: [{paths: [src]}]\n  output: [{paths: [out]}]\n", vec!["out/o.txt"]),
        mk("directory+extensions", "t:\n  build: ':'\n  input: [{paths: [src], extensions: [txt]}]\n  output: [{paths: [out], extensions: [txt]}]\n", vec!["out/o.txt", "out/o.bin"]),
        // the same, in a project whose directory lies below a directory named like zinoma's work directory
        mk("directory-below-a-.zinoma-ancestor", "t:\n  build: ':'\n  input: [{paths: [src]}]\n  output: [{paths: [out]}]\n", vec!["out/o.txt"]),
        mk("overlapping-paths", "t:\n  build: ':'\n  input: [{paths: [src, src/sub]}]\n  output: [{paths: [out/o.txt]}]\n", vec!["out/o.txt"]),
        // the same file denoted by two separate resource entries of one target
        mk("overlapping-resources", "t:\n  build: ':'\n  input: [{paths: [src]}, {paths: [src/sub]}, {paths: [src/a.txt]}]\n  output: [{paths: [out]}, {paths: [out/o.txt]}]\n", vec!["out/o.txt"]),
        Layout {
            name: "inherited-output-inside-own-directory",
            projects: vec![("", None, "p:\n  build: ':'\n  output: [{paths: [src/gen], extensions: [txt]}]\nt:\n  build: ':'\n  input: [{paths: [src]}, p.output]\n  output: [{paths: [out/o.txt]}]\n")],
            target: "t",
            files: { let mut f = common.clone(); f.extend(vec![("src/gen/g.txt", "generated"), ("src/gen/h.bin", "generated-binary")]); f },
            writes: vec!["out/o.txt"],
        },
        // the consumer's own resource and an inherited one name the same path with different extension filters
        Layout {
            name: "inherited-output-same-path-other-filter",
            projects: vec![("", None, "p:\n  build: ':'\n  output: [{paths: [src], extensions: [csv]}]\nt:\n  build: ':'\n  input: [{paths: [src], extensions: [txt]}, p.output]\n  output: [{paths: [out/o.txt]}]\n")],
            target: "t",
            files: common.clone(),
            writes: vec!["out/o.txt"],
        },
        // a producer output that is a symlink to a regular file kept elsewhere
        Layout {
            name: "inherited-output-symlinked-file",
            projects: vec![("", None, "p:\n  build: ':'\n  output: [{paths: [pout]}]\nt:\n  build: ':'\n  input: [{paths: [src/a.txt]}, p.output]\n  output: [{paths: [out/o.txt]}]\n")],
            target: "t",
            files: { let mut f = common.clone(); f.extend(vec![("pout/x.o", "obj-x"), ("vault/real.txt", "behind-the-link"), ("vault/other.txt", "another-variant")]); f },
            writes: vec!["out/o.txt"],
        },
        // a symlink to a regular file inside a declared directory: the content behind it is part of the resource
        Layout {
            name: "symlinked-input",
            projects: vec![("", None, "t:\n  build: ':'\n  input: [{paths: [src], extensions: [txt]}]\n  output: [{paths: [out/o.txt]}]\n")],
            target: "t",
            files: { let mut f = common.clone(); f.extend(vec![("vault/real.txt", "behind-the-link")]); f },
            writes: vec!["out/o.txt"],
        },
        // declared paths that are not in canonical form (a `..` component), inside the project
        mk("non-canonical-paths", "t:\n  build: ':'\n  input: [{paths: [src/sub/../a.txt, src/sub/deep/../../sub]}]\n  output: [{paths: [out/../out/o.txt]}]\n", vec!["out/o.txt"]),
        mk("two-resources", "t:\n  build: ':'\n  input: [{paths: [src/a.txt]}, {paths: [src/sub], extensions: [txt]}]\n  output: [{paths: [out/o.txt]}]\n", vec!["out/o.txt"]),
        mk("cmd-only", "t:\n  build: ':'\n  input: [{cmd_stdout: 'cat v.txt'}]\n  output: [{paths: [out/o.txt]}]\n", vec!["out/o.txt"]),
        mk("file+cmd", "t:\n  build: ':'\n  input: [{paths: [src/a.txt]}, {cmd_stdout: 'cat v.txt'}]\n  output: [{paths: [out/o.txt]}, {cmd_stdout: 'cat out/o.txt'}]\n", vec!["out/o.txt"]),
        mk("input-only", "t:\n  build: ':'\n  input: [{paths: [src]}]\n", vec![]),
        Layout {
            name: "big-file",
            projects: vec![("", None, "t:\n  build: ':'\n  input: [{paths: [big.bin]}]\n  output: [{paths: [out/o.txt]}]\n")],
            target: "t",
            // (big.bin is overwritten with 24 kB at materialisation; listed here so that its operations are generated)
            files: { let mut f = common.clone(); f.push(("big.bin", "placeholder")); f },
            writes: vec!["out/o.txt"],
        },
        Layout {
            name: "inherited-output-same-project",
            projects: vec![("", None, "p:\n  build: ':'\n  output: [{paths: [pout], extensions: [o]}, {cmd_stdout: 'cat pv.txt'}]\nt:\n  build: ':'\n  input: [{paths: [src/a.txt]}, p.output]\n  output: [{paths: [out/o.txt]}]\n")],
            target: "t",
            files: { let mut f = common.clone(); f.extend(vec![("pout/x.o", "obj-x"), ("pout/y.txt", "not-an-object"), ("pv.txt", "pv-one")]); f },
            writes: vec!["out/o.txt"],
        },
        Layout {
            name: "inherited-output-imported-project",
            projects: vec![
                ("", None, "t:\n  build: ':'\n  input: [{paths: [src/a.txt]}, 'lib::p.output']\n  output: [{paths: [out/o.txt]}]\n"),
                ("libdir", Some("lib"), "p:\n  build: ':'\n  output: [{paths: [src], extensions: [txt]}, {cmd_stdout: 'cat v.txt'}]\n"),
            ],
            target: "t",
            // identical relative paths and command text in both projects
            files: { let mut f = common.clone(); f.extend(vec![("libdir/src/a.txt", "lib-alpha"), ("libdir/src/z.bin", "lib-bin"), ("libdir/v.txt", "lib-v-one")]); f },
            writes: vec!["out/o.txt"],
        },
        Layout {
            name: "two-producers-same-command-text",
            projects: vec![
                ("", None, "t:\n  build: ':'\n  input: ['pa::p.output', 'pb::p.output']\n  output: [{paths: [out/o.txt]}]\n"),
                ("pa", Some("pa"), "p:\n  build: ':'\n  output: [{cmd_stdout: 'cat v.txt'}]\n"),
                ("pb", Some("pb"), "p:\n  build: ':'\n  output: [{cmd_stdout: 'cat v.txt'}]\n"),
            ],
            target: "t",
            files: vec![("pa/v.txt", "from-a"), ("pb/v.txt", "from-b")],
            writes: vec!["out/o.txt"],
        },
        Layout {
            name: "same-command-text-same-output",
            projects: vec![
                ("", None, "t:\n  build: ':'\n  input: ['pa::p.output', 'pb::p.output']\n  output: [{paths: [out/o.txt]}]\n"),
                ("pa", Some("pa"), "p:\n  build: ':'\n  output: [{cmd_stdout: 'cat v.txt'}]\n"),
                ("pb", Some("pb"), "p:\n  build: ':'\n  output: [{cmd_stdout: 'cat v.txt'}]\n"),
            ],
            target: "t",
            files: vec![("pa/v.txt", "same"), ("pb/v.txt", "same")],
            writes: vec!["out/o.txt"],
        },
        // the same command text, written with an absolute program path, in two project directories
        Layout {
            name: "two-producers-absolute-command-text",
            projects: vec![
                ("", None, "t:\n  build: ':'\n  input: ['pa::p.output', 'pb::p.output']\n  output: [{paths: [out/o.txt]}]\n"),
                ("pa", Some("pa"), "p:\n  build: ':'\n  output: [{cmd_stdout: '/bin/cat v.txt'}]\n"),
                ("pb", Some("pb"), "p:\n  build: ':'\n  output: [{cmd_stdout: '/bin/cat v.txt'}]\n"),
            ],
            target: "t",
            files: vec![("pa/v.txt", "from-a"), ("pb/v.txt", "from-b")],
            writes: vec!["out/o.txt"],
        },
        mk("no-input", "t:\n  build: ':'\n  output: [{paths: [out/o.txt]}]\n", vec!["out/o.txt"]),
        mk("unstorable-state", "t:\n  build: ':'\n  input: [{paths: [src/a.txt]}, {cmd_stdout: 'cat missing-file.txt'}]\n  output: [{paths: [out/o.txt]}]\n", vec!["out/o.txt"]),
    ]
}

/// alternate declarations of the root project's targets (the zinoma.yml is edited between two invocations):
/// every alternate only adds resources or changes a command's text, so "every declared resource is as recorded"
/// cannot hold for the new declaration and the record of the old one must not allow a skip
pub fn alts_for(name: &str) -> Vec<&'static str> {
    match name {
        "cmd-only" => vec![
            // the command text is edited (prints the same text as before)
            "t:\n  build: ':'\n  input: [{cmd_stdout: 'cat  v.txt'}]\n  output: [{paths: [out/o.txt]}]\n",
            // a second command is added
            "t:\n  build: ':'\n  input: [{cmd_stdout: 'cat v.txt'}, {cmd_stdout: 'echo fixed'}]\n  output: [{paths: [out/o.txt]}]\n",
        ],
        "file+cmd" => vec![
            "t:\n  build: ':'\n  input: [{paths: [src/a.txt]}, {cmd_stdout: 'cat v.txt; true'}]\n  output: [{paths: [out/o.txt]}, {cmd_stdout: 'cat out/o.txt'}]\n",
            // a command is added to the outputs
            "t:\n  build: ':'\n  input: [{paths: [src/a.txt]}, {cmd_stdout: 'cat v.txt'}]\n  output: [{paths: [out/o.txt]}, {cmd_stdout: 'cat out/o.txt'}, {cmd_stdout: 'echo fixed'}]\n",
            // a file resource is added to the inputs
            "t:\n  build: ':'\n  input: [{paths: [src/a.txt]}, {paths: [src/b.csv]}, {cmd_stdout: 'cat v.txt'}]\n  output: [{paths: [out/o.txt]}, {cmd_stdout: 'cat out/o.txt'}]\n",
        ],
        "file-path" => vec![
            // a command is added to a target that had none
            "t:\n  build: ':'\n  input: [{paths: [src/a.txt]}, {cmd_stdout: 'cat v.txt'}]\n  output: [{paths: [out/o.txt]}]\n",
            // another file is declared
            "t:\n  build: ':'\n  input: [{paths: [src/a.txt, src/b.csv]}]\n  output: [{paths: [out/o.txt]}]\n",
        ],
        "inherited-output-same-project" => vec![
            // the producer's command is edited / one is added: inherited through p.output
            "p:\n  build: ':'\n  output: [{paths: [pout], extensions: [o]}, {cmd_stdout: 'cat  pv.txt'}]\nt:\n  build: ':'\n  input: [{paths: [src/a.txt]}, p.output]\n  output: [{paths: [out/o.txt]}]\n",
            "p:\n  build: ':'\n  output: [{paths: [pout], extensions: [o]}, {cmd_stdout: 'cat pv.txt'}, {cmd_stdout: 'echo fixed'}]\nt:\n  build: ':'\n  input: [{paths: [src/a.txt]}, p.output]\n  output: [{paths: [out/o.txt]}]\n",
        ],
        _ => vec![],
    }
}

#[derive(Clone, Debug, PartialEq, Eq, Hash, PartialOrd, Ord)]
pub enum Op {
    /// the root project's zinoma.yml is rewritten with alternate declaration #i (see `alts_for`)
    Redeclare(usize),
    RewriteSameLength(&'static str),
    TouchSameContent(&'static str),
    ChangeContentRestoreMtime(&'static str),
    /// different content carrying an *older* modification time (restored backup, `cp -p`, `tar x`)
    RewriteOlderMtime(&'static str),
    ChangeByteAt(&'static str, usize),
    Append(&'static str),
    Truncate(&'static str),
    Delete(&'static str),
    Create(&'static str),
    Rename(&'static str, &'static str),
    ReplaceFileByDir(&'static str),
    DeleteRecord,
    TruncateRecord,
    SwapContents(&'static str, &'static str),
    /// a symlink is re-pointed (atomically: new link renamed over the old one)
    Repoint(&'static str, &'static str),
}

pub fn ops_for(l: &Layout) -> Vec<Op> {
    use Op::*;
    let mut v = vec![];
    let has = |p: &str| l.files.iter().any(|(f, _)| *f == p);
    if has("src/a.txt") {
        v.extend(vec![
            RewriteSameLength("src/a.txt"),
            TouchSameContent("src/a.txt"),
            ChangeContentRestoreMtime("src/a.txt"),
            RewriteOlderMtime("src/a.txt"),
            RewriteOlderMtime("src/sub/c.txt"),
            Append("src/a.txt"),
            Truncate("src/a.txt"),
            Delete("src/a.txt"),
            Rename("src/a.txt", "src/a2.txt"),
            Rename("src/a.txt", "elsewhere/a.txt"),
            Rename("src/a.txt", "src/sub/a.txt"),
            ReplaceFileByDir("src/a.txt"),
            Create("src/new.txt"),
            Create("src/new.zzz"),
            Create("src/sub/deep/new.txt"),
            RewriteSameLength("src/b.csv"),
            RewriteSameLength("src/e.min.txt"),
            Create("src/new.min.txt"),
            RewriteSameLength("src/sub/deep/d.txt"),
            Delete("src/sub/c.txt"),
            RewriteSameLength("other/a.txt"),
            SwapContents("src/a.txt", "src/sub/c.txt"),
        ]);
    }
    if has("v.txt") {
        v.push(RewriteSameLength("v.txt"));
    }
    if has("vault/real.txt") {
        v.extend(vec![RewriteSameLength("vault/real.txt"), RewriteOlderMtime("vault/real.txt"), TouchSameContent("vault/real.txt")]);
    }
    if l.name == "inherited-output-symlinked-file" {
        v.extend(vec![Repoint("pout/current.o", "../vault/other.txt"), Repoint("pout/current.o", "../vault/real.txt"), RewriteSameLength("vault/other.txt")]);
    }
    if has("big.bin") {
        v.extend(vec![ChangeByteAt("big.bin", 5), ChangeByteAt("big.bin", 1500), ChangeByteAt("big.bin", 9000), ChangeByteAt("big.bin", 23999), TouchSameContent("big.bin"), Append("big.bin")]);
    }
    if !l.writes.is_empty() {
        v.extend(vec![RewriteSameLength("out/o.txt"), Delete("out/o.txt"), TouchSameContent("out/o.txt"), Create("out/extra.txt"), RewriteOlderMtime("out/o.txt")]);
    }
    if has("pout/x.o") {
        v.extend(vec![RewriteSameLength("pout/x.o"), RewriteOlderMtime("pout/x.o"), Create("pout/new.o"), Create("pout/new.txt"), Delete("pout/x.o"), RewriteSameLength("pout/y.txt"), RewriteSameLength("pv.txt"), TouchSameContent("pout/x.o")]);
    }
    if has("libdir/src/a.txt") {
        v.extend(vec![RewriteSameLength("libdir/src/a.txt"), RewriteOlderMtime("libdir/src/a.txt"), Create("libdir/src/new.txt"), Create("libdir/src/new.bin"), Delete("libdir/src/a.txt"), RewriteSameLength("libdir/src/z.bin"), RewriteSameLength("libdir/v.txt")]);
    }
    if has("pa/v.txt") {
        v.extend(vec![RewriteSameLength("pa/v.txt"), RewriteSameLength("pb/v.txt"), TouchSameContent("pa/v.txt")]);
    }
    for i in 0..alts_for(l.name).len() {
        v.push(Redeclare(i));
    }
    v.extend(vec![DeleteRecord, TruncateRecord]);
    v
}

static CLOCK: AtomicU64 = AtomicU64::new(0);
fn tick() -> i64 {
    1_700_000_000 + CLOCK.fetch_add(1, Ordering::SeqCst) as i64
}

pub fn write_clocked(p: &Path, content: &[u8]) {
    write(p, content);
    set_mtime(p, tick());
}

fn record_path(root: &Path, l: &Layout, meta: &domain::TargetMetadata) -> PathBuf {
    let _ = (root, l);
    let dir: PathBuf = PathBuf::from(meta.project_dir.as_os_str().to_os_string());
    dir.join(".zinoma").join(format!("{}.checksums", meta.id))
}

/// apply one operation; returns false when it does not apply to the current tree (no-op)
pub fn apply_op(root: &Path, op: &Op, rec: &Path) -> bool {
    use Op::*;
    match op {
        Redeclare(_) => unreachable!("handled by apply_op_scene"),
        RewriteSameLength(f) => {
            let p = root.join(f);
            match std::fs::read(&p) {
                Ok(old) if p.is_file() => {
                    let new: Vec<u8> = old.iter().map(|b| if *b == b'x' { b'y' } else { b'x' }).collect();
                    write_clocked(&p, &new);
                    true
                }
                _ => false,
            }
        }
        TouchSameContent(f) => {
            let p = root.join(f);
            if p.is_file() {
                set_mtime(&p, tick());
                true
            } else {
                false
            }
        }
        ChangeContentRestoreMtime(f) => {
            let p = root.join(f);
            match (std::fs::read(&p), get_mtime(&p)) {
                (Ok(old), Some(m)) if p.is_file() => {
                    let new: Vec<u8> = old.iter().map(|b| b.wrapping_add(1)).collect();
                    write(&p, &new);
                    set_mtime(&p, m);
                    true
                }
                _ => false,
            }
        }
        RewriteOlderMtime(f) => {
            let p = root.join(f);
            match (std::fs::read(&p), get_mtime(&p)) {
                (Ok(old), Some(m)) if p.is_file() => {
                    let new: Vec<u8> = old.iter().map(|b| if *b == b'q' { b'r' } else { b'q' }).collect();
                    write(&p, &new);
                    set_mtime(&p, m - 1000);
                    true
                }
                _ => false,
            }
        }
        ChangeByteAt(f, off) => {
            let p = root.join(f);
            match std::fs::read(&p) {
                Ok(mut old) if old.len() > *off => {
                    old[*off] ^= 0x01;
                    write_clocked(&p, &old);
                    true
                }
                _ => false,
            }
        }
        Append(f) => {
            let p = root.join(f);
            match std::fs::read(&p) {
                Ok(mut old) if p.is_file() => {
                    old.extend_from_slice(b"+");
                    write_clocked(&p, &old);
                    true
                }
                _ => false,
            }
        }
        Truncate(f) => {
            let p = root.join(f);
            if p.is_file() && std::fs::metadata(&p).map(|m| m.len() > 0).unwrap_or(false) {
                write_clocked(&p, b"");
                true
            } else {
                false
            }
        }
        Delete(f) => {
            let p = root.join(f);
            if p.is_file() {
                std::fs::remove_file(&p).unwrap();
                true
            } else {
                false
            }
        }
        Create(f) => {
            let p = root.join(f);
            if p.exists() || !p.parent().map(|d| d.is_dir()).unwrap_or(false) {
                false
            } else {
                write_clocked(&p, b"created");
                true
            }
        }
        Rename(a, b) => {
            let (pa, pb) = (root.join(a), root.join(b));
            if pa.is_file() && !pb.exists() {
                if let Some(d) = pb.parent() {
                    std::fs::create_dir_all(d).unwrap();
                }
                std::fs::rename(&pa, &pb).unwrap();
                true
            } else {
                false
            }
        }
        ReplaceFileByDir(f) => {
            let p = root.join(f);
            if p.is_file() {
                std::fs::remove_file(&p).unwrap();
                std::fs::create_dir_all(&p).unwrap();
                write_clocked(&p.join("inner.txt"), b"inner");
                true
            } else {
                false
            }
        }
        SwapContents(a, b) => {
            let (pa, pb) = (root.join(a), root.join(b));
            match (std::fs::read(&pa), std::fs::read(&pb)) {
                (Ok(ca), Ok(cb)) if pa.is_file() && pb.is_file() && ca != cb => {
                    write_clocked(&pa, &cb);
                    write_clocked(&pb, &ca);
                    true
                }
                _ => false,
            }
        }
        Repoint(link, to) => {
            let p = root.join(link);
            match std::fs::read_link(&p) {
                Ok(cur) if cur != Path::new(to) => {
                    let tmp = root.join(format!("{}.new", link));
                    let _ = std::fs::remove_file(&tmp);
                    std::os::unix::fs::symlink(to, &tmp).unwrap();
                    std::fs::rename(&tmp, &p).unwrap();
                    true
                }
                _ => false,
            }
        }
        DeleteRecord => {
            if rec.is_file() {
                std::fs::remove_file(rec).unwrap();
                true
            } else {
                false
            }
        }
        TruncateRecord => match std::fs::read(rec) {
            Ok(b) if b.len() > 4 => {
                std::fs::write(rec, &b[..b.len() / 2]).unwrap();
                true
            }
            _ => false,
        },
    }
}

// ---------------------------------------------------------------------------------------
// materialisation and resolution

pub struct Scene {
    pub root: PathBuf,
    pub meta: domain::TargetMetadata,
    pub input: Resources,
    pub output: Resources,
    pub rec: PathBuf,
    pub executions: u32,
    /// reference record: snapshot taken at the last completed execution
    pub record: Option<Snap>,
    /// the reference's own idea of the effective input (hand-written per layout where inputs are inherited;
    /// otherwise, and after a re-declaration, the resolved one)
    pub ref_input: Option<(FileSpec, CmdSpec)>,
}

pub fn materialise(l: &Layout, root: &Path) -> Scene {
    for (f, c) in &l.files {
        write_clocked(&root.join(f), c.as_bytes());
    }
    if l.name == "inherited-output-symlinked-file" {
        std::os::unix::fs::symlink("../vault/real.txt", root.join("pout/current.o")).unwrap();
    }
    if l.name == "symlinked-input" {
        std::os::unix::fs::symlink("../vault/real.txt", root.join("src/link.txt")).unwrap();
    }
    if l.name == "big-file" {
        write_clocked(&root.join("big.bin"), big_content().as_bytes());
    }
    write_projects(l, root, None);
    let (meta, input, output) = resolve_scene(l, root);
    let rec = record_path(root, l, &meta);
    // hand-written where inputs are inherited, otherwise the reference's own reading of the YAML text
    let ref_input = std::fs::canonicalize(root).ok().and_then(|r| expected_inputs(l.name, &r).or_else(|| ref_resolve(l, &r, None)));
    assert!(ref_input.is_some(), "MACHINERY: the reference cannot read layout {}", l.name);
    Scene { root: root.to_path_buf(), meta, input, output, rec, executions: 0, record: None, ref_input }
}

/// one operation of a history on a scene (a re-declaration re-resolves the target's resources, as a new invocation does)
pub fn apply_op_scene(sc: &mut Scene, l: &Layout, o: &Op) -> bool {
    if let Op::Redeclare(i) = o {
        let alt = alts_for(l.name)[*i];
        let root = sc.root.clone();
        write_projects(l, &root, Some(alt));
        let (meta, input, output) = resolve_scene(l, &root);
        let same = input == sc.input && output == sc.output;
        sc.meta = meta;
        sc.input = input;
        sc.output = output;
        sc.ref_input = std::fs::canonicalize(&root).ok().and_then(|r| ref_resolve(l, &r, Some(alt)));
        assert!(sc.ref_input.is_some(), "MACHINERY: the reference cannot read re-declaration {} of layout {}", i, l.name);
        return !same;
    }
    let root = sc.root.clone();
    let rec = sc.rec.clone();
    apply_op(&root, o, &rec)
}

fn write_projects(l: &Layout, root: &Path, root_alt: Option<&str>) {
    let mut projects = HashMap::new();
    for (sub, name, targets_yaml) in &l.projects {
        let targets_yaml: &str = if sub.is_empty() { root_alt.unwrap_or(targets_yaml) } else { targets_yaml };
        let dir = if sub.is_empty() { root.to_path_buf() } else { root.join(sub) };
        std::fs::create_dir_all(&dir).unwrap();
        let mut text = String::new();
        if let Some(n) = name {
            text += &format!("name: {}\n", n);
        }
        text += "targets:\n";
        for line in targets_yaml.lines() {
            text += &format!("  {}\n", line);
        }
        std::fs::write(dir.join("zinoma.yml"), &text).unwrap();
        let _ = projects.insert(dir, ());
    }
    // imports of the root project: every other project
    let mut root_text = std::fs::read_to_string(root.join("zinoma.yml")).unwrap();
    let imports: Vec<String> = l.projects.iter().filter(|(s, _, _)| !s.is_empty()).map(|(s, n, _)| format!("  {}: {}\n", n.unwrap(), s)).collect();
    if !imports.is_empty() {
        root_text = format!("imports:\n{}{}", imports.join(""), root_text);
        std::fs::write(root.join("zinoma.yml"), &root_text).unwrap();
    }
}

fn resolve_scene(l: &Layout, root: &Path) -> (domain::TargetMetadata, Resources, Resources) {
    let cfg = yaml::Config::load(root).unwrap_or_else(|e| panic!("layout {} does not load: {:#}", l.name, e));
    let ir: ir::Config = cfg.into();
    let id = domain::TargetId::try_parse(l.target, &ir.root_project_name).unwrap();
    let mut m = ir.try_into_domain_targets(&[id.clone()]).unwrap_or_else(|e| panic!("layout {} does not resolve: {:#}", l.name, e));
    let (meta, input, output) = match m.remove(&id).unwrap() {
        domain::Target::Build(b) => (b.metadata, b.input, b.output),
        _ => panic!("target under test must be a build"),
    };
    (meta, input, output)
}

// ---------------------------------------------------------------------------------------
// reference record model

#[derive(Clone, Debug, PartialEq)]
pub struct Snap {
    pub input_files: BTreeMap<PathBuf, (i64, Vec<u8>)>,
    pub output_files: BTreeMap<PathBuf, (i64, Vec<u8>)>,
    pub input_cmds: BTreeMap<(PathBuf, String), String>,
    pub output_cmds: BTreeMap<(PathBuf, String), String>,
}

fn snap_files(files: &FileSpec) -> BTreeMap<PathBuf, (i64, Vec<u8>)> {
    let mut out = BTreeMap::new();
    for (decl, exts) in files {
        let (must, _dc) = ref_list(decl, &norm_exts(exts));
        for f in must {
            if let (Some(m), Ok(c)) = (get_mtime(&f), std::fs::read(&f)) {
                out.insert(f, (m, c));
            }
        }
    }
    out
}

fn snap_cmds(cmds: &CmdSpec) -> Option<BTreeMap<(PathBuf, String), String>> {
    let mut out = BTreeMap::new();
    for (cmd, dir) in cmds {
        let o = std::process::Command::new("/bin/sh").arg("-ce").arg(cmd).current_dir(dir).stderr(std::process::Stdio::null()).output().ok()?;
        if !o.status.success() {
            return None;
        }
        out.insert((dir.clone(), cmd.clone()), String::from_utf8_lossy(&o.stdout).to_string());
    }
    Some(out)
}

/// None when the state cannot be computed (a command resource fails): nothing is stored then
pub fn take_snap(input: &Resources, output: &Resources) -> Option<Snap> {
    take_snap_spec(&spec_of(input), input.is_empty(), output)
}

pub fn take_snap_spec(input: &(FileSpec, CmdSpec), no_input: bool, output: &Resources) -> Option<Snap> {
    if no_input {
        return None; // targets without input keep no record
    }
    let out = spec_of(output);
    Some(Snap { input_files: snap_files(&input.0), output_files: snap_files(&out.0), input_cmds: snap_cmds(&input.1)?, output_cmds: snap_cmds(&out.1)? })
}

fn scene_snap(sc: &Scene) -> Option<Snap> {
    match &sc.ref_input {
        Some(spec) => take_snap_spec(spec, spec.0.is_empty() && spec.1.is_empty(), &sc.output),
        None => take_snap(&sc.input, &sc.output),
    }
}

fn files_same(a: &BTreeMap<PathBuf, (i64, Vec<u8>)>, b: &BTreeMap<PathBuf, (i64, Vec<u8>)>) -> bool {
    a.len() == b.len() && a.iter().all(|(k, (m, c))| b.get(k).map(|(m2, c2)| m == m2 || c == c2).unwrap_or(false))
}
fn files_identical(a: &BTreeMap<PathBuf, (i64, Vec<u8>)>, b: &BTreeMap<PathBuf, (i64, Vec<u8>)>) -> bool {
    a == b
}

/// the statement's rule: same file sets, every file same mtime or same content, every command same text
pub fn skip_allowed(record: &Option<Snap>, now: &Option<Snap>) -> bool {
    match (record, now) {
        (Some(r), Some(n)) => files_same(&r.input_files, &n.input_files) && files_same(&r.output_files, &n.output_files) && r.input_cmds == n.input_cmds && r.output_cmds == n.output_cmds,
        _ => false,
    }
}
/// strictest reading of "nothing changed": bit- and mtime-identical
pub fn untouched(record: &Option<Snap>, now: &Option<Snap>) -> bool {
    match (record, now) {
        (Some(r), Some(n)) => files_identical(&r.input_files, &n.input_files) && files_identical(&r.output_files, &n.output_files) && r.input_cmds == n.input_cmds && r.output_cmds == n.output_cmds,
        _ => false,
    }
}

// ---------------------------------------------------------------------------------------
// one invocation of the real runner

#[derive(Debug, Clone, Copy, PartialEq, Eq)]
pub enum Decision {
    Skipped,
    Executed,
}

pub fn invoke(sc: &mut Scene, l: &Layout) -> Result<Decision, String> {
    invoke_with(sc, l, None)
}

/// `during`: a file-system operation performed while the script runs (before it writes its outputs). The record
/// of a completed run describes the inputs the script was started on and the outputs it left.
pub fn invoke_with(sc: &mut Scene, l: &Layout, during: Option<&Op>) -> Result<Decision, String> {
    let executed = std::sync::Arc::new(std::sync::atomic::AtomicBool::new(false));
    let ex2 = executed.clone();
    let root = sc.root.clone();
    let rec = sc.rec.clone();
    let writes: Vec<PathBuf> = l.writes.iter().map(|w| root.join(w)).collect();
    let n = sc.executions + 1;
    let during: Option<Op> = during.cloned();
    // (input part only: an output command may not be runnable before the first build)
    let no_output = Resources { files: vec![], cmds: vec![] };
    let before = match &sc.ref_input {
        Some(spec) => take_snap_spec(spec, spec.0.is_empty() && spec.1.is_empty(), &no_output),
        None => take_snap(&sc.input, &no_output),
    };
    let fut = async move {
        ex2.store(true, Ordering::SeqCst);
        if let Some(op) = &during {
            apply_op(&root, op, &rec);
        }
        for w in &writes {
            write_clocked(w, format!("built #{}", n).as_bytes());
        }
        Ok(BuildTerminationReport::Completed)
    };
    let meta = sc.meta.clone();
    let input = sc.input.clone();
    let output = sc.output.clone();
    let res = std::panic::catch_unwind(std::panic::AssertUnwindSafe(|| async_std::task::block_on(incremental::run(&meta, &input, Some(&output), fut))));
    let res = match res {
        Ok(r) => r,
        Err(_) => return Err("the incremental runner panicked".into()),
    };
    match res {
        Ok(IncrementalRunResult::Skipped) => {
            if executed.load(Ordering::SeqCst) {
                return Err("runner reported Skipped but executed the script".into());
            }
            Ok(Decision::Skipped)
        }
        Ok(IncrementalRunResult::Completed) => {
            sc.executions += 1;
            // inputs as the script found them, outputs as it left them
            sc.record = match (before, scene_snap(sc)) {
                (Some(b), Some(a)) => Some(Snap { input_files: b.input_files, input_cmds: b.input_cmds, output_files: a.output_files, output_cmds: a.output_cmds }),
                _ => None,
            };
            Ok(Decision::Executed)
        }
        Ok(IncrementalRunResult::Cancelled) => Err("runner reported Cancelled".into()),
        Err(e) => Err(format!("runner returned an error: {:#}", e)),
    }
}

// ---------------------------------------------------------------------------------------
// drivers

pub struct HistOut {
    pub histories: u64,
    pub invocations: u64,
    pub skips: u64,
    pub skip_allowed_but_ran: u64,
    pub distinct: BTreeSet<u64>,
    pub violations: Vec<(String, String, serde_json::Value)>,
    pub sample: Option<serde_json::Value>,
}

fn h64<T: std::hash::Hash>(t: &T) -> u64 {
    use std::hash::Hasher;
    let mut h = std::collections::hash_map::DefaultHasher::new();
    t.hash(&mut h);
    h.finish()
}

#[derive(Clone, Copy, PartialEq)]
pub enum Oracle {
    /// C02: Skipped only when the reference allows it
    SkipOnlyWhenAllowed,
    /// C03: untouched + has input + storable state => Skipped; no input => executed
    UntouchedIsSkipped,
    /// C13: both directions on unambiguous operations (content and mtime change together)
    RerunIffChanged,
}

/// run; h1; run; h2; run  — every history with |h1| <= len1 and |h2| <= len2
pub fn run_histories(l: &Layout, ops: &[Op], len1: usize, len2: usize, oracle: Oracle, tag: &str) -> HistOut {
    run_histories_part(l, ops, len1, len2, oracle, tag, 0, 1)
}

/// evaluates the histories whose index is congruent to `part` modulo `parts` (to spread one layout over threads)
pub fn run_histories_part(l: &Layout, ops: &[Op], len1: usize, len2: usize, oracle: Oracle, tag: &str, part: usize, parts: usize) -> HistOut {
    let mut out = HistOut { histories: 0, invocations: 0, skips: 0, skip_allowed_but_ran: 0, distinct: BTreeSet::new(), violations: vec![], sample: None };
    let seqs = |max: usize| -> Vec<Vec<Op>> {
        let mut v: Vec<Vec<Op>> = vec![vec![]];
        let mut cur: Vec<Vec<Op>> = vec![vec![]];
        for _ in 0..max {
            let mut next = vec![];
            for s in &cur {
                for o in ops {
                    let mut s2 = s.clone();
                    s2.push(o.clone());
                    next.push(s2);
                }
            }
            v.extend(next.iter().cloned());
            cur = next;
        }
        v
    };
    let h1s = seqs(len1);
    let h2s = if len2 == usize::MAX { vec![] } else { seqs(len2) };
    let mut case = 0usize;
    for h1 in &h1s {
        let h2list: Vec<Option<&Vec<Op>>> = if h2s.is_empty() { vec![None] } else { h2s.iter().map(Some).collect() };
        for h2 in h2list {
            case += 1;
            if case % parts != part {
                continue;
            }
            static SEQ: AtomicU64 = AtomicU64::new(0);
            let base = scratch(&format!("{}-{}-{}-{}", tag, l.name, case, SEQ.fetch_add(1, Ordering::SeqCst)));
            let root = project_root(l, &base);
            let mut sc = materialise(l, &root);
            let mut log: Vec<String> = vec![];
            let mut bad: Option<(String, String)> = None;
            let mut step = |sc: &mut Scene, what: &str, log: &mut Vec<String>, out: &mut HistOut, bad: &mut Option<(String, String)>| {
                let before_record = sc.record.clone();
                let now = scene_snap(sc);
                let allowed = skip_allowed(&before_record, &now);
                let same = untouched(&before_record, &now);
                let d = invoke(sc, l);
                out.invocations += 1;
                log.push(format!("{} -> {:?} (reference: skip allowed={}, untouched={})", what, d, allowed, same));
                match d {
                    Err(e) => {
                        if bad.is_none() {
                            *bad = Some((format!("runner-error:{}", e.split(':').next().unwrap_or("")), e));
                        }
                    }
                    Ok(Decision::Skipped) => {
                        out.skips += 1;
                        if !allowed && oracle != Oracle::UntouchedIsSkipped && bad.is_none() {
                            *bad = Some(("skipped-although-something-declared-changed".into(), "the runner skipped while the reference record differs from the current state (or no record exists)".into()));
                        }
                    }
                    Ok(Decision::Executed) => {
                        if allowed {
                            out.skip_allowed_but_ran += 1;
                        }
                        let must_skip = match oracle {
                            Oracle::UntouchedIsSkipped => same,
                            Oracle::RerunIffChanged => same,
                            Oracle::SkipOnlyWhenAllowed => false,
                        };
                        if must_skip && bad.is_none() {
                            *bad = Some(("rebuilt-although-nothing-changed".into(), "the target has inputs, its state was stored by a completed run, the tree is bit- and mtime-identical, yet the script ran again".into()));
                        }
                    }
                }
            };
            step(&mut sc, "run#1", &mut log, &mut out, &mut bad);
            let mut applied_any = false;
            for o in h1 {
                let ok = apply_op_scene(&mut sc, l, o);
                if matches!(o, Op::DeleteRecord | Op::TruncateRecord) && ok {
                    sc.record = None;
                }
                applied_any |= ok;
                log.push(format!("op {:?}{}", o, if ok { "" } else { " (not applicable)" }));
            }
            step(&mut sc, "run#2", &mut log, &mut out, &mut bad);
            if let Some(h2) = h2 {
                for o in h2 {
                    let ok = apply_op_scene(&mut sc, l, o);
                    if matches!(o, Op::DeleteRecord | Op::TruncateRecord) && ok {
                        sc.record = None;
                    }
                    log.push(format!("op {:?}{}", o, if ok { "" } else { " (not applicable)" }));
                }
                step(&mut sc, "run#3", &mut log, &mut out, &mut bad);
            }
            let _ = applied_any;
            out.histories += 1;
            out.distinct.insert(h64(&(l.name, &log)));
            if out.sample.is_none() && h1.len() >= 1 && log.iter().any(|s| s.contains("Skipped")) {
                out.sample = Some(json!({"layout": l.name, "history": log}));
            }
            if let Some((fp, why)) = bad {
                let ops_class: Vec<String> = h1.iter().chain(h2.map(|h| h.iter()).into_iter().flatten()).map(|o| format!("{:?}", o).split('(').next().unwrap_or("").to_string()).collect();
                out.violations.push((format!("{} [layout={} ops={}]", fp, l.name, ops_class.join(",")), format!("{}\nlayout {}\n{}", why, l.name, log.join("\n")), json!({"engine": "seqcheck", "check": tag, "layout": l.name, "h1": h1.iter().map(|o| format!("{:?}", o)).collect::<Vec<_>>(), "h2": h2.map(|h| h.iter().map(|o| format!("{:?}", o)).collect::<Vec<_>>()), "log": log})));
            }
            let _ = std::fs::remove_dir_all(&base);
        }
    }
    out
}

/// where the project of a layout is placed below its scratch directory
pub fn project_root(l: &Layout, base: &Path) -> PathBuf {
    let root = if l.name == "directory-below-a-.zinoma-ancestor" { base.join(".zinoma/generated/proj") } else { base.to_path_buf() };
    std::fs::create_dir_all(&root).unwrap();
    root
}

/// run; drop the record; run with one operation performed *while the script runs*; run — the last invocation must
/// follow the reference, whose record describes the inputs the second script was started on
pub fn run_during_script(l: &Layout, ops: &[Op], oracle: Oracle, tag: &str) -> HistOut {
    let mut out = HistOut { histories: 0, invocations: 0, skips: 0, skip_allowed_but_ran: 0, distinct: BTreeSet::new(), violations: vec![], sample: None };
    for (k, op) in ops.iter().enumerate() {
        if matches!(op, Op::Redeclare(_) | Op::DeleteRecord | Op::TruncateRecord) {
            continue;
        }
        static SEQ: AtomicU64 = AtomicU64::new(0);
        let base = scratch(&format!("{}-during-{}-{}-{}", tag, l.name, k, SEQ.fetch_add(1, Ordering::SeqCst)));
        let root = project_root(l, &base);
        let mut sc = materialise(l, &root);
        let mut log: Vec<String> = vec![];
        let mut bad: Option<(String, String)> = None;
        let d1 = invoke(&mut sc, l);
        log.push(format!("run#1 -> {:?}", d1));
        let rec = sc.rec.clone();
        if apply_op(&root, &Op::DeleteRecord, &rec) {
            sc.record = None;
        }
        log.push("op DeleteRecord".into());
        let d2 = invoke_with(&mut sc, l, Some(op));
        log.push(format!("run#2 with {:?} performed while the script runs -> {:?}", op, d2));
        let now = scene_snap(&sc);
        let allowed = skip_allowed(&sc.record, &now);
        let same = untouched(&sc.record, &now);
        let d3 = invoke(&mut sc, l);
        out.invocations += 3;
        log.push(format!("run#3 -> {:?} (reference: skip allowed={}, untouched={})", d3, allowed, same));
        match (&d1, &d2, &d3) {
            (Err(e), _, _) | (_, Err(e), _) | (_, _, Err(e)) => bad = Some((format!("runner-error:{}", e.split(':').next().unwrap_or("")), e.clone())),
            (_, _, Ok(Decision::Skipped)) => {
                out.skips += 1;
                if !allowed {
                    bad = Some(("skipped-although-something-declared-changed-while-the-script-ran".into(), "the runner skipped although a declared resource was changed while the previous script was running (the record must describe what that script was started on)".into()));
                }
            }
            (_, _, Ok(Decision::Executed)) => {
                if allowed {
                    out.skip_allowed_but_ran += 1;
                }
                if same && oracle != Oracle::SkipOnlyWhenAllowed {
                    bad = Some(("rebuilt-although-nothing-changed".into(), "the tree is as recorded, yet the script ran again".into()));
                }
            }
        }
        out.histories += 1;
        out.distinct.insert(h64(&(l.name, "during", &log)));
        if let Some((fp, why)) = bad {
            out.violations.push((format!("{} [layout={} ops={}]", fp, l.name, format!("{:?}", op).split('(').next().unwrap_or("")), format!("{}\nlayout {}\n{}", why, l.name, log.join("\n")), json!({"engine": "seqcheck", "check": tag, "layout": l.name, "during_script": format!("{:?}", op), "log": log})));
        }
        let _ = std::fs::remove_dir_all(&base);
    }
    out
}

fn merge(rep: &mut Report, outs: Vec<HistOut>) {
    let mut distinct = BTreeSet::new();
    let (mut h, mut inv, mut skips, mut ran) = (0, 0, 0, 0);
    // keep one violation per (fingerprint class, layout): the shortest history
    let mut best: BTreeMap<String, (String, String, serde_json::Value)> = BTreeMap::new();
    for o in outs {
        h += o.histories;
        inv += o.invocations;
        skips += o.skips;
        ran += o.skip_allowed_but_ran;
        distinct.extend(o.distinct);
        for (fp, d, r) in o.violations {
            let class = fp.split(" ops=").next().unwrap_or(&fp).to_string() + "]";
            match best.get(&class) {
                Some(old) if old.1.len() <= d.len() => {}
                _ => {
                    best.insert(class.clone(), (class, d, r));
                }
            }
        }
        if let Some(s) = o.sample {
            rep.push_sample(s);
        }
    }
    for (_, (fp, d, r)) in best {
        rep.violation(fp, d, r);
    }
    rep.add_u64("states", distinct.len() as u64);
    rep.add_u64("transitions", inv);
    rep.add_u64("traces_validated_against_impl", h);
    rep.add_u64("histories", h);
    rep.add_u64("invocations_of_the_real_runner", inv);
    rep.add_u64("skipped_decisions", skips);
    rep.add_u64("executed_although_skip_was_allowed", ran);
}

pub fn check_c02(rep: &mut Report) {
    let ls: Vec<Layout> = layouts().into_iter().filter(|l| !["no-input", "same-command-text-same-output"].contains(&l.name)).collect();
    let thorough = rep.thorough();
    // run; h; run with |h| <= 2 (quick: on three file layouts, |h| <= 1 on the others);
    // chained run; h1; run; h2; run with |h1|,|h2| <= 1 everywhere; thorough: |h| <= 3 on three layouts
    let cheap = |l: &Layout| !l.projects.iter().any(|p| p.2.contains("cmd_stdout"));
    let mut jobs: Vec<(Layout, usize, usize)> = vec![];
    for l in &ls {
        let deep = ["directory", "directory+extensions", "overlapping-resources"].contains(&l.name);
        jobs.push((l.clone(), if thorough || (cheap(l) && deep) { 2 } else { 1 }, usize::MAX));
        jobs.push((l.clone(), 1, 1));
        if thorough && ["file-path", "directory+extensions"].contains(&l.name) {
            jobs.push((l.clone(), 3, usize::MAX));
        }
    }
    let mut split: Vec<(Layout, usize, usize, usize, usize)> = vec![];
    for (l, a, b) in &jobs {
        let parts = if *a >= 2 { 12 } else { 2 };
        for k in 0..parts {
            split.push((l.clone(), *a, *b, k, parts));
        }
    }
    let mut outs = crate::explore::par_map(&split, 16, |(l, a, b, k, n)| run_histories_part(l, &ops_for(l), *a, *b, Oracle::SkipOnlyWhenAllowed, "C02", *k, *n));
    outs.extend(crate::explore::par_map(&ls, 16, |l| run_during_script(l, &ops_for(l), Oracle::SkipOnlyWhenAllowed, "C02")));
    merge(rep, outs);
    rep.set("exhaustive", json!(true));
    rep.set("bounds", json!({"layouts": ls.iter().map(|l| l.name).collect::<Vec<_>>(), "operations": ops_for(&ls[1]).iter().map(|o| format!("{:?}", o)).collect::<Vec<_>>(), "histories": "run; h; run with |h|<=2 on three file layouts (all layouts thorough; 3 on two layouts thorough), |h|<=1 on the others; run; h1; run; h2; run with |h1|,|h2|<=1 everywhere"}));
    rep.set("rule", json!("states = distinct histories by their full decision log; transitions = invocations of the real runner"));
    rep.assumptions.push("mtimes are set explicitly by the harness, strictly increasing".into());
}

pub fn check_c03(rep: &mut Report) {
    let ls: Vec<Layout> = layouts();
    // untouched tree: run; run; run   and   run; <op>; run; run (the 3rd invocation sees an untouched tree again)
    let jobs: Vec<(Layout, usize, usize)> = ls.iter().flat_map(|l| vec![(l.clone(), 0usize, 0usize), (l.clone(), 1usize, 0usize)]).collect();
    let outs = crate::explore::par_map(&jobs, 16, |(l, a, b)| {
        let mut o = run_histories(l, &ops_for(l), *a, *b, Oracle::UntouchedIsSkipped, "C03");
        // a target without input must execute every time: the runner must never skip it
        if l.name == "no-input" && o.skips > 0 {
            o.violations.push(("target-without-input-skipped".into(), "a target that declares no input was skipped".into(), json!({"engine": "seqcheck", "check": "C03", "layout": l.name})));
        }
        o
    });
    merge(rep, outs);
    rep.set("exhaustive", json!(true));
    rep.set("bounds", json!({"layouts": ls.iter().map(|l| l.name).collect::<Vec<_>>(), "sequences": "run; run; run and run; op; run; run for every operation of the layout"}));
    rep.set("rule", json!("states = distinct histories by decision log; transitions = invocations of the real runner"));
}

pub fn check_c13_behaviour(rep: &mut Report) {
    let ls: Vec<Layout> = layouts().into_iter().filter(|l| l.name.starts_with("inherited") || l.name.starts_with("two-producers") || l.name.starts_with("same-command")).collect();
    let thorough = rep.thorough();
    let jobs: Vec<(Layout, usize, usize)> = ls.iter().flat_map(|l| vec![(l.clone(), if thorough { 2usize } else { 1 }, usize::MAX), (l.clone(), 1usize, 1usize)]).collect();
    let outs = crate::explore::par_map(&jobs, 16, |(l, a, b)| {
        // only unambiguous operations (content and mtime change together, or nothing changes)
        let ops: Vec<Op> = ops_for(l).into_iter().filter(|o| !matches!(o, Op::TouchSameContent(_) | Op::ChangeContentRestoreMtime(_) | Op::DeleteRecord | Op::TruncateRecord)).collect();
        // (RewriteOlderMtime changes content and mtime together, so it stays in)
        // this oracle checks both directions: skipped => allowed, untouched => skipped
        run_histories(l, &ops, *a, *b, Oracle::RerunIffChanged, "C13")
    });
    let mut outs = outs;
    // a producer's outputs changing while the consumer's script runs
    outs.extend(crate::explore::par_map(&ls, 16, |l| {
        let ops: Vec<Op> = ops_for(l).into_iter().filter(|o| !matches!(o, Op::TouchSameContent(_) | Op::ChangeContentRestoreMtime(_) | Op::DeleteRecord | Op::TruncateRecord)).collect();
        run_during_script(l, &ops, Oracle::RerunIffChanged, "C13")
    }));
    merge(rep, outs);
}

pub type FileSpec = Vec<(Vec<PathBuf>, Option<Vec<String>>)>;
pub type CmdSpec = Vec<(String, PathBuf)>;

/// the effective input of the target under test, written out by hand from the layout's project files (`r` is the
/// canonical scratch root): the reference of the behavioural oracles does not go through zinoma's resolver
pub fn expected_inputs(layout: &str, r: &Path) -> Option<(FileSpec, CmdSpec)> {
    Some(match layout {
        "inherited-output-same-project" => (vec![(vec![r.join("src/a.txt")], None), (vec![r.join("pout")], Some(vec![".o".into()]))], vec![("cat pv.txt".into(), r.to_path_buf())]),
        "inherited-output-imported-project" => (vec![(vec![r.join("src/a.txt")], None), (vec![r.join("libdir/src")], Some(vec![".txt".into()]))], vec![("cat v.txt".into(), r.join("libdir"))]),
        "inherited-output-inside-own-directory" => (vec![(vec![r.join("src")], None), (vec![r.join("src/gen")], Some(vec![".txt".into()]))], vec![]),
        "two-producers-same-command-text" | "same-command-text-same-output" => (vec![], vec![("cat v.txt".into(), r.join("pa")), ("cat v.txt".into(), r.join("pb"))]),
        "inherited-output-same-path-other-filter" => (vec![(vec![r.join("src")], Some(vec![".txt".into()])), (vec![r.join("src")], Some(vec![".csv".into()]))], vec![]),
        "inherited-output-symlinked-file" => (vec![(vec![r.join("src/a.txt")], None), (vec![r.join("pout")], None)], vec![]),
        "two-producers-absolute-command-text" => (vec![], vec![("/bin/cat v.txt".into(), r.join("pa")), ("/bin/cat v.txt".into(), r.join("pb"))]),
        _ => return None,
    })
}

/// The reference's own reading of the project files: the effective input of the target under test, computed from
/// the YAML text alone (own entries in order, then for every `X.output` / `P::X.output` entry the output entries of
/// X with X's project directory). Nothing of zinoma's configuration layer is used; `root_alt` replaces the root
/// project's targets (a re-declaration).
pub fn ref_resolve(l: &Layout, r: &Path, root_alt: Option<&str>) -> Option<(FileSpec, CmdSpec)> {
    use serde_yaml::Value;
    let mut projs: Vec<(PathBuf, Option<&str>, Value)> = vec![];
    for (sub, name, text) in &l.projects {
        let text: &str = if sub.is_empty() { root_alt.unwrap_or(text) } else { text };
        let v: Value = serde_yaml::from_str(text).ok()?;
        projs.push((if sub.is_empty() { r.to_path_buf() } else { r.join(sub) }, *name, v));
    }
    let key = |s: &str| Value::String(s.to_string());
    let entries = |body: &Value, k: &str| -> Vec<Value> { body.as_mapping().and_then(|m| m.get(&key(k))).and_then(|v| v.as_sequence()).cloned().unwrap_or_default() };
    let mut files: FileSpec = vec![];
    let mut cmds: CmdSpec = vec![];
    fn add_entry(e: &serde_yaml::Value, dir: &Path, files: &mut FileSpec, cmds: &mut CmdSpec) -> Option<()> {
        let m = e.as_mapping()?;
        let key = |s: &str| serde_yaml::Value::String(s.to_string());
        if let Some(c) = m.get(&key("cmd_stdout")) {
            cmds.push((c.as_str()?.to_string(), dir.to_path_buf()));
        } else {
            let paths: Vec<PathBuf> = m.get(&key("paths"))?.as_sequence()?.iter().map(|p| dir.join(p.as_str().unwrap_or(""))).collect();
            let exts: Option<Vec<String>> = m.get(&key("extensions")).and_then(|v| v.as_sequence()).map(|s| s.iter().map(|e| e.as_str().unwrap_or("").to_string()).collect());
            files.push((paths, exts));
        }
        Some(())
    }
    // the target under test lives in the root project (projs[0])
    let (tproj, tname) = match l.target.split_once("::") {
        Some((p, t)) => (projs.iter().position(|x| x.1 == Some(p))?, t),
        None => (0, l.target),
    };
    let body = projs[tproj].2.as_mapping()?.get(&key(tname))?.clone();
    for e in entries(&body, "input") {
        if let Some(sref) = e.as_str() {
            let x = sref.strip_suffix(".output")?;
            let (pi, xn) = match x.split_once("::") {
                Some((p, t)) => (projs.iter().position(|q| q.1 == Some(p))?, t),
                None => (tproj, x),
            };
            let xb = projs[pi].2.as_mapping()?.get(&key(xn))?.clone();
            let dir = projs[pi].0.clone();
            for oe in entries(&xb, "output") {
                add_entry(&oe, &dir, &mut files, &mut cmds)?;
            }
        } else {
            let dir = projs[tproj].0.clone();
            add_entry(&e, &dir, &mut files, &mut cmds)?;
        }
    }
    Some((files, cmds))
}

fn spec_of(res: &Resources) -> (FileSpec, CmdSpec) {
    (
        res.files.iter().map(|f| (f.paths.iter().map(|p| PathBuf::from(p.as_os_str().to_os_string())).collect(), f.extensions.as_ref().map(|e| e.iter().cloned().collect()))).collect(),
        res.cmds.iter().map(|c| (c.cmd.clone(), PathBuf::from(c.dir.as_os_str().to_os_string()))).collect(),
    )
}

/// C13: resolution through real files (canonical directories) + behaviour
pub fn check_c13(rep: &mut Report) {
    crate::seq_resolve::c13_resolution(rep);
    // resolution through Config::load on real files: the consumer's effective input, spelled out
    let root = scratch("c13-res");
    let canon = |p: &Path| std::fs::canonicalize(p).unwrap();
    for l in layouts().into_iter().filter(|l| l.name.starts_with("inherited") || l.name.starts_with("two-producers")) {
        let r = root.join(l.name);
        std::fs::create_dir_all(&r).unwrap();
        let sc = materialise(&l, &r);
        let r = canon(&r);
        let files: Vec<(Vec<PathBuf>, Option<Vec<String>>)> = sc.input.files.iter().map(|f| (f.paths.iter().map(|p| PathBuf::from(p.as_os_str().to_os_string())).collect(), f.extensions.as_ref().map(|e| e.iter().cloned().collect()))).collect();
        let cmds: Vec<(String, PathBuf)> = sc.input.cmds.iter().map(|c| (c.cmd.clone(), PathBuf::from(c.dir.as_os_str().to_os_string()))).collect();
        let (want_files, want_cmds) = expected_inputs(l.name, &r).unwrap_or_else(|| panic!("MACHINERY: no expectation written for layout {}", l.name));
        // the two references (hand-written table, reading of the YAML text) must agree with each other
        match ref_resolve(&l, &r, None) {
            Some((mut rf, mut rc)) => {
                let (mut wf, mut wc) = (want_files.clone(), want_cmds.clone());
                // (the table spells extensions with their dot)
                for x in rf.iter_mut() {
                    if let Some(es) = x.1.as_mut() {
                        for e in es.iter_mut() {
                            if !e.starts_with('.') {
                                *e = format!(".{}", e);
                            }
                        }
                    }
                }
                rf.sort();
                rc.sort();
                wf.sort();
                wc.sort();
                if rf != wf || rc != wc {
                    rep.machinery_errors.push(format!("layout {}: the reference's reading of the YAML text {:?} {:?} differs from the hand-written expectation {:?} {:?}", l.name, rf, rc, wf, wc));
                }
            }
            None => rep.machinery_errors.push(format!("layout {}: the reference cannot read the YAML text", l.name)),
        }
        rep.add_u64("transitions", 1);
        if files != want_files || cmds != want_cmds {
            rep.violation(format!("inherited-input-differs-on-disk [layout={}]", l.name), format!("layout {}: effective input files {:?} cmds {:?}\nexpected files {:?} cmds {:?}", l.name, files, cmds, want_files, want_cmds), json!({"engine": "seqcheck", "check": "C13", "layout": l.name}));
        }
        let deps: Vec<String> = sc.meta.dependencies.iter().map(|d| d.to_string()).collect();
        let want_deps: Vec<&str> = match l.name {
            "inherited-output-same-project" => vec!["p"],
            "inherited-output-imported-project" => vec!["lib::p"],
            "inherited-output-inside-own-directory" | "inherited-output-same-path-other-filter" | "inherited-output-symlinked-file" => vec!["p"],
            n if n.starts_with("two-producers") => vec!["pa::p", "pb::p"],
            other => panic!("MACHINERY: no dependency expectation written for layout {}", other),
        };
        if deps != want_deps {
            rep.violation(format!("producer-not-a-dependency [layout={}]", l.name), format!("layout {}: dependencies {:?}, expected {:?}", l.name, deps, want_deps), json!({"engine": "seqcheck", "check": "C13", "layout": l.name}));
        }
    }
    let _ = std::fs::remove_dir_all(&root);
    check_c13_behaviour(rep);
    rep.set("exhaustive", json!(true));
    rep.set("bounds", json!({"resolution": "all worlds <=2 nodes (3 nodes <=3 edges) with .output references, naming worlds over 3 projects, 3 on-disk layouts through Config::load", "behaviour": "layouts inherited-output-same-project / -imported-project / two-producers-same-command-text / same-command-text-same-output x histories run;h;run |h|<=2 and run;h1;run;h2;run |h|<=1 over edits of producer outputs, producer command output, consumer's same-named files"}));
    rep.set("rule", json!("states = distinct resolver cases + distinct histories; transitions = resolver calls + runner invocations"));
}
