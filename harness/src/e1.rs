//! Monitors and per-property drivers for the actor engine (E1, DESIGN §6).
use crate::explore::*;
use crate::graphs::*;
use crate::report::Report;
use crate::sys::*;
use crate::world::Ev;
use serde_json::json;
use std::collections::{BTreeMap, BTreeSet};
use std::sync::Arc;
use std::time::{Duration, Instant};
use zinoma::verif::Slot;

// ---------------------------------------------------------------------------------------
// helpers over the harness-side facts

/// (variant, kind, target) of an inbox message description
pub fn parse_msg(d: &str) -> (String, String, String) {
    let variant = d.split(' ').next().unwrap_or("").to_string();
    let kind = d.split("kind: ").nth(1).map(|s| s.split(|c| c == ',' || c == ' ').next().unwrap_or("").to_string()).unwrap_or_default();
    let target = d.split("target_name: \"").nth(1).map(|s| s.split('"').next().unwrap_or("").to_string()).unwrap_or_default();
    (variant, kind, target)
}

pub fn result_class(r: &Option<Result<(), String>>) -> String {
    match r {
        None => "unfinished".into(),
        Some(Ok(())) => "Ok".into(),
        Some(Err(e)) => {
            let t = e.split("with target ").nth(1).map(|s| s.split(|c: char| c == ':' || c.is_whitespace()).next().unwrap_or("")).unwrap_or("?");
            format!("Err({})", t)
        }
    }
}

/// terminal observation shared by all E1 properties
pub fn observation(sys: &Sys) -> String {
    let ch = sys.children();
    let mut per: BTreeMap<String, Vec<String>> = BTreeMap::new();
    for c in &ch {
        let how = match (c.status, c.killed) {
            (None, _) => "live",
            (Some(_), true) => "killed",
            (Some(0), false) => "ok",
            (Some(_), false) => "failed",
        };
        per.entry(c.target.clone()).or_default().push(how.to_string());
    }
    for v in per.values_mut() {
        v.sort();
    }
    format!("run={} exited={} children={:?}", result_class(&sys.run_result()), sys.main_done(), per)
}

/// watch-mode observation for metamorphic comparisons: how often a target re-ran is schedule- and
/// path-dependent (an extra dependency is an extra source of delay, two invalidation paths may or may not
/// coalesce); what is compared at quiescence is whether each target ran, whether a process of it is alive,
/// and whether its last start is later than the last start of everything it depends on
pub fn observation_coarse(sys: &Sys) -> String {
    let cfg = &sys.cfg;
    let evs = sys.events_from(0);
    let last_spawn = |t: &str| evs.iter().rposition(|e| matches!(e, Ev::Spawn { t: x, .. } if x == t));
    let ch = sys.children();
    let mut v = vec![];
    for t in cfg.targets.iter().filter(|t| t.kind != Kind::A) {
        let ran = last_spawn(&t.name);
        let live = ch.iter().any(|c| c.target == t.name && c.status.is_none());
        // fresh: its last start is later than the last start of everything it (transitively) depends on
        let fresh = match ran {
            None => false,
            Some(s) => cfg.deps_star(&t.name).iter().filter(|d| cfg.targets.iter().any(|x| &x.name == *d && x.kind != Kind::A)).all(|d| last_spawn(d).map(|ds| ds < s).unwrap_or(false)),
        };
        v.push(format!("{}:{}{}{}", t.name, if ran.is_some() { "ran" } else { "never" }, if live { "+live" } else { "" }, if fresh { "+fresh" } else { "+STALE" }));
    }
    format!("run={} exited={} {}", result_class(&sys.run_result()), sys.main_done(), v.join(" "))
}

fn ok_finished(evs: &[Ev], t: &str) -> bool {
    evs.iter().any(|e| matches!(e, Ev::Finish { t: x, code: 0, .. } if x == t))
}
fn spawned(evs: &[Ev], t: &str) -> bool {
    evs.iter().any(|e| matches!(e, Ev::Spawn { t: x, .. } if x == t))
}

fn describe_stuck(sys: &Sys) -> (String, String) {
    // who waits for what, from the message log only
    let evs = sys.events_from(0);
    let cfg = &sys.cfg;
    let mut waits = BTreeSet::new();
    let mut detail = String::new();
    if let Some(x) = sys.relay_parked_in_forward() {
        waits.insert(format!("relay parked forwarding into the full inbox of a {:?}", cfg.spec(&x).kind));
    }
    let blocked = sys.blocked_senders();
    if !blocked.is_empty() {
        waits.insert("actor(s) blocked sending into the full output queue".to_string());
        detail += &format!("blocked senders: {:?}\n", blocked);
    }
    let mut raw: Vec<(String, String, &str, &str)> = vec![];
    for x in sys.alive_actors() {
        let hx = sys.hist(&x);
        for d in cfg.direct_deps(&x) {
            for k in ["Build", "Service"] {
                let requested = evs.iter().any(|e| matches!(e, Ev::Relayed { dest, desc } if dest == &d && desc.starts_with("Requested") && desc.contains(&format!("kind: {}", k)) && desc.contains(&format!("target_name: \"{}\"", x))));
                let acked = hx.iter().any(|m| {
                    let (v, kk, tt) = parse_msg(m);
                    v == "Ok" && kk == k && tt == d
                });
                if requested && !acked {
                    let hd = sys.hist(&d);
                    let req_pos = hd.iter().position(|m| m.starts_with("Requested") && m.contains(&format!("kind: {}", k)) && m.contains(&format!("target_name: \"{}\"", x)));
                    let exec_pos = match cfg.spec(&d).kind {
                        Kind::B => hd.iter().position(|m| m == "finish0"),
                        Kind::S => hd.iter().position(|m| m == "spawn"),
                        Kind::A => None,
                    };
                    let when = match (req_pos, exec_pos) {
                        (Some(r), Some(e)) if r > e => "request consumed after the dependency had executed",
                        (Some(_), Some(_)) => "request consumed before the dependency executed",
                        (Some(_), None) => "request consumed, dependency never executed",
                        (None, _) => "request never consumed",
                    };
                    raw.push((x.clone(), d.clone(), k, when));
                    detail += &format!("{} waits for Ok{{{}}} from {} ({})\n", x, k, d, when);
                }
            }
        }
    }
    // root causes only: a wait on a dependency that is itself waiting is a consequence
    let waiting: BTreeSet<String> = raw.iter().map(|w| w.0.clone()).collect();
    for (_, d, k, when) in &raw {
        let derived = *when == "request consumed, dependency never executed" && waiting.contains(d);
        if !derived {
            waits.insert(format!("a {:?} owes Ok{{{}}}: {}", cfg.spec(d).kind, k, when));
        }
    }
    if sys.relay_parked_in_forward().is_some() && !sys.blocked_senders().is_empty() {
        // bounded-queue cycle: everything else is a consequence
        return ("relay parked forwarding into a full inbox while an actor is blocked sending into the full output queue".to_string(), detail);
    }
    let fp = waits.into_iter().collect::<Vec<_>>().join("; ");
    (fp, detail)
}

fn everything_executed(sys: &Sys) -> bool {
    let evs = sys.events_from(0);
    sys.cfg.closure().iter().all(|t| match sys.cfg.spec(t).kind {
        Kind::B => ok_finished(&evs, t),
        Kind::S => spawned(&evs, t),
        Kind::A => true,
    })
}

// ---------------------------------------------------------------------------------------
// monitors

/// C04: deadlock / lost wake-up at terminal states of all-success one-shot runs
pub fn c04_terminal(sys: &Sys, ctx: &mut Ctx) {
    let cfg = &sys.cfg;
    ctx.count("terminal states");
    if sys.main_done() {
        match sys.run_result() {
            Some(Ok(())) => {
                if !everything_executed(sys) {
                    ctx.violation("exit-0-before-everything-ran", format!("run returned Ok but not every needed target was built/started\n{}", observation(sys)));
                }
            }
            other => ctx.violation(format!("unexpected-result:{}", result_class(&other)), format!("all scripts succeed but the run returned {:?}", other)),
        }
    } else {
        let legit = sys.run_result().is_none() && !cfg.root_services().is_empty() && everything_executed(sys) && sys.q_len() == 0;
        if legit {
            ctx.count("parked for a signal under a requested service");
        } else {
            let (fp, detail) = describe_stuck(sys);
            ctx.violation(format!("deadlock: {}", fp), format!("no enabled action while the run future is unfinished\n{}{}", detail, observation(sys)));
        }
    }
}

/// C01: at every start, all dependency leaves are ready and the last word of each direct dependency is Ok
pub fn c01_step(sys: &Sys, ev0: usize, ctx: &mut Ctx) {
    let new = sys.events_from(ev0);
    if !new.iter().any(|e| matches!(e, Ev::Spawn { .. })) {
        return;
    }
    let all = sys.events_from(0);
    let cfg = &sys.cfg;
    for (off, e) in new.iter().enumerate() {
        if let Ev::Spawn { t, .. } = e {
            let before = &all[..ev0 + off];
            let deps = cfg.deps_star(t);
            if !deps.is_empty() {
                ctx.count("starts with >=1 dependency");
            }
            for d in &deps {
                match cfg.spec(d).kind {
                    Kind::B => {
                        if !ok_finished(before, d) {
                            ctx.violation(format!("start-before-build-dependency:{:?}<-{:?}", cfg.spec(t).kind, cfg.spec(d).kind), format!("{} started while its build dependency {} has not completed in this run", t, d));
                        }
                    }
                    Kind::S => {
                        ctx.count("starts with a service dependency");
                        if !spawned(before, d) {
                            ctx.violation(format!("start-before-service-dependency:{:?}<-S", cfg.spec(t).kind), format!("{} started while its service dependency {} was never started", t, d));
                        }
                    }
                    Kind::A => ctx.count("starts with an aggregate in between"),
                }
            }
            // (b) latest word from each direct dependency, per kind
            let h = sys.hist(t);
            // only the part of the history before this spawn: the spawn marker is the last "spawn" entry
            let cut = h.iter().rposition(|m| m == "spawn").unwrap_or(h.len());
            let h = &h[..cut];
            for d in cfg.direct_deps(t) {
                for k in ["Build", "Service"] {
                    let last = h.iter().rev().find_map(|m| {
                        let (v, kk, tt) = parse_msg(m);
                        if (v == "Ok" || v == "Invalidated") && kk == k && tt == d {
                            Some(v)
                        } else {
                            None
                        }
                    });
                    match last.as_deref() {
                        Some("Ok") => {}
                        Some(_) => {
                            ctx.violation(format!("start-while-dependency-invalidated:{:?}<-{:?}:{}", cfg.spec(t).kind, cfg.spec(&d).kind, k), format!("{} started while the latest word it consumed from {} about {} is Invalidated", t, d, k));
                        }
                        None => {
                            ctx.violation(format!("start-without-ok:{:?}<-{:?}:{}", cfg.spec(t).kind, cfg.spec(&d).kind, k), format!("{} started without ever consuming Ok{{{}}} from its dependency {}", t, k, d));
                        }
                    }
                }
            }
            if h.iter().any(|m| m.starts_with("Invalidated")) {
                ctx.count("starts after an invalidation from a dependency");
            }
        }
    }
}

/// C07 step: nothing that depends on a failed target starts
pub fn c07_step(sys: &Sys, ev0: usize, ctx: &mut Ctx) {
    let new = sys.events_from(ev0);
    if !new.iter().any(|e| matches!(e, Ev::Spawn { .. } | Ev::Kill { .. } | Ev::Relayed { .. })) {
        return;
    }
    let all = sys.events_from(0);
    let cfg = &sys.cfg;
    for (off, e) in new.iter().enumerate() {
        let before = &all[..ev0 + off];
        match e {
            // a failed execution never produces an acknowledgement (reduced mode: the relay is eager, so the
            // sender's history at relay time is its history at send time)
            Ev::Relayed { desc, .. } if !cfg.exact => {
                let (v, k, d) = parse_msg(desc);
                if v == "Ok" && desc.contains("actual: true") {
                    let hd = sys.hist(&d);
                    let last = hd.iter().rev().find(|m| m.starts_with("finish") || m.as_str() == "spawnfail" || (m.as_str() == "spawn" && cfg.spec(&d).kind == Kind::S));
                    let bad = match (cfg.spec(&d).kind, k.as_str(), last.map(|s| s.as_str())) {
                        (Kind::B, "Build", Some("finish0")) => false,
                        (Kind::S, "Service", Some("spawn")) => false,
                        (Kind::A, _, _) => false,
                        _ => true,
                    };
                    ctx.count("acknowledgements of leaves checked against their last execution");
                    if bad {
                        ctx.violation(format!("ok-sent-after-failed-execution:{:?}", cfg.spec(&d).kind), format!("{} sent Ok{{{}}} although its last execution is {:?}", d, k, last));
                    }
                }
            }
            // in watch mode a dependent may legitimately start on the acknowledgement of an earlier
            // successful execution that is still in flight when the dependency fails again; but once the
            // system has been message-quiescent after the failure, the out-of-date notice has reached
            // every dependent: none of them may start any more
            Ev::Spawn { t, .. } if cfg.watch => {
                for d in cfg.deps_star(t) {
                    let failed_at = before.iter().rposition(|e| matches!(e, Ev::Finish { t: x, code, .. } if x == &d && *code != 0) || matches!(e, Ev::SpawnFail { t: x } if x == &d));
                    let ok_since = |from: usize| before[from..].iter().any(|e| matches!(e, Ev::Finish { t: x, code: 0, .. } if x == &d) || matches!(e, Ev::Spawn { t: x, service: true, .. } if x == &d));
                    if let Some(f) = failed_at {
                        ctx.count("watch: starts below a target whose last execution failed");
                        if !ok_since(f) && sys.quiescent_before > f {
                            ctx.violation(format!("dependent-started-after-the-failure-had-propagated:{:?}<-{:?}", cfg.spec(t).kind, cfg.spec(&d).kind), format!("{} started although {} (in its dependency closure) failed, did not succeed since, and every message had been delivered in between", t, d));
                        }
                    }
                }
            }
            Ev::Spawn { t, .. } => {
                for d in cfg.deps_star(t) {
                    // failed and not since succeeded
                    let last = before.iter().rev().find_map(|e| match e {
                        Ev::Finish { t: x, code, .. } if x == &d => Some(*code != 0),
                        Ev::SpawnFail { t: x } if x == &d => Some(true),
                        Ev::Spawn { t: x, service: true, .. } if x == &d => Some(false),
                        _ => None,
                    });
                    if last == Some(true) {
                        ctx.violation(format!("dependent-of-failed-target-started:{:?}<-{:?}", cfg.spec(t).kind, cfg.spec(&d).kind), format!("{} started although {} in its dependency closure failed and did not succeed since", t, d));
                    }
                    if last.is_some() {
                        ctx.count("starts with an executed dependency (failure possible)");
                    }
                }
            }
            Ev::Kill { t, .. } => {
                // unaffected until shutdown: no kill before the relay consumed an error / run returned / signal
                let shutdown = before.iter().any(|e| matches!(e, Ev::RunReturned { .. } | Ev::Sigterm));
                if !shutdown && !cfg.watch {
                    ctx.violation(format!("killed-before-shutdown:{:?}", cfg.spec(t).kind), format!("{}'s process was killed although shutdown had not begun", t));
                }
            }
            _ => {}
        }
    }
}

fn failures(evs: &[Ev]) -> BTreeSet<String> {
    let mut f = BTreeSet::new();
    for e in evs {
        match e {
            Ev::Finish { t, code, .. } if *code != 0 => {
                f.insert(t.clone());
            }
            Ev::SpawnFail { t } => {
                f.insert(t.clone());
            }
            _ => {}
        }
    }
    f
}

pub fn c07_terminal(sys: &Sys, ctx: &mut Ctx) {
    let evs = sys.events_from(0);
    let cfg = &sys.cfg;
    let failed = failures(&evs);
    if failed.is_empty() {
        // control: all-success schedules must end as C04 says
        if !cfg.watch {
            c04_terminal(sys, ctx);
        }
        return;
    }
    ctx.count("terminal states after >=1 failure");
    if !cfg.watch {
        if !sys.main_done() {
            let (fp, detail) = describe_stuck(sys);
            ctx.violation(format!("failure-not-reported:run-unfinished: {}", fp), format!("a target failed ({:?}) but the one-shot run never returned\n{}{}", failed, detail, observation(sys)));
            return;
        }
        match sys.run_result() {
            Some(Err(e)) => {
                if !failed.iter().any(|f| e.contains(&format!("target {}", f))) {
                    ctx.violation("error-does-not-name-a-failed-target", format!("error chain {:?} names none of {:?}", e, failed));
                }
            }
            other => ctx.violation(format!("failure-swallowed:{}", result_class(&other)), format!("targets {:?} failed but the run returned {:?}", failed, other)),
        }
    } else {
        if sys.run_result().is_some() {
            ctx.violation("watch-stopped-after-failure", format!("watch run returned {:?} after the failure of {:?}", sys.run_result(), failed));
        }
        for f in &failed {
            let reported = evs.iter().any(|e| matches!(e, Ev::Relayed { dest, desc } if dest == "<root>" && desc.starts_with(&format!("Error({},", f))));
            if !reported {
                ctx.violation("failure-not-reported-in-watch-mode", format!("{} failed but no error reached the relay", f));
            }
        }
        // still-failed targets at the end, and who should have started anyway
        let still_failed: BTreeSet<String> = cfg
            .targets
            .iter()
            .filter(|t| {
                let last = evs.iter().rev().find_map(|e| match e {
                    Ev::Finish { t: x, code, .. } if x == &t.name => Some(*code != 0),
                    Ev::SpawnFail { t: x } if x == &t.name => Some(true),
                    Ev::Spawn { t: x, service: true, .. } if x == &t.name => Some(false),
                    _ => None,
                });
                last == Some(true)
            })
            .map(|t| t.name.clone())
            .collect();
        // "keeps watching": a change to the inputs of a target whose last execution failed leads to a new
        // attempt (the state is quiescent and every notification of the budget has been used)
        if !cfg.sigterm {
            for t in &cfg.targets {
                if t.kind == Kind::A || !t.has_input {
                    continue;
                }
                let attempt = |e: &Ev| matches!(e, Ev::Spawn { t: x, .. } if x == &t.name) || matches!(e, Ev::SpawnFail { t: x } if x == &t.name);
                // (all in the target's own history: the consumption of its last notification, its attempts)
                let last_notify = evs.iter().rposition(|e| matches!(e, Ev::Consume { t: x, slot: Slot::Invalidation, .. } if x == &t.name));
                let n = match last_notify {
                    Some(n) => n,
                    None => continue,
                };
                let failed_before = evs[..n].iter().rev().find_map(|e| match e {
                    Ev::Finish { t: x, code, .. } if x == &t.name => Some(*code != 0),
                    Ev::SpawnFail { t: x } if x == &t.name => Some(true),
                    Ev::Spawn { t: x, service: true, .. } if x == &t.name => Some(false),
                    _ => None,
                });
                if failed_before != Some(true) {
                    continue;
                }
                let blocked = cfg.deps_star(&t.name).iter().any(|d| still_failed.contains(d));
                ctx.count("watch: changes to the inputs of a target whose last execution had failed");
                if !blocked && !evs[n..].iter().any(attempt) {
                    ctx.violation(format!("change-to-a-failed-target's-inputs-ignored:{:?}", t.kind), format!("{}'s last execution failed, its inputs changed afterwards, no dependency of it is failed, yet it was never attempted again\n{}", t.name, observation(sys)));
                }
            }
        }
        for t in &cfg.targets {
            if t.kind == Kind::A || still_failed.contains(&t.name) {
                continue;
            }
            let blocked = cfg.deps_star(&t.name).iter().any(|d| still_failed.contains(d));
            if !blocked && !spawned(&evs, &t.name) {
                let (fp, detail) = describe_stuck(sys);
                ctx.violation(format!("unaffected-target-never-started:{:?}: {}", t.kind, fp), format!("{} does not depend on a failed target ({:?}) but never started\n{}", t.name, still_failed, detail));
            }
        }
    }
}

/// C08: at most one execution per target in a one-shot run; exactly one on success
pub fn c08_step(sys: &Sys, ev0: usize, ctx: &mut Ctx) {
    let new = sys.events_from(ev0);
    if !new.iter().any(|e| matches!(e, Ev::Spawn { .. })) {
        return;
    }
    let all = sys.events_from(0);
    let mut counts: BTreeMap<String, u32> = BTreeMap::new();
    for e in &all {
        if let Ev::Spawn { t, .. } = e {
            *counts.entry(t.clone()).or_insert(0) += 1;
        }
    }
    ctx.count("starts observed");
    for (t, n) in counts {
        if n > 1 {
            ctx.violation(format!("executed-twice:{:?}", sys.cfg.spec(&t).kind), format!("{} was started {} times in a one-shot run", t, n));
        }
    }
}
pub fn c08_terminal(sys: &Sys, ctx: &mut Ctx) {
    if sys.main_done() && sys.run_result() == Some(Ok(())) && !sys.sig_arrived {
        ctx.count("successful terminal states");
        let evs = sys.events_from(0);
        for t in sys.cfg.closure() {
            let n = evs.iter().filter(|e| matches!(e, Ev::Spawn { t: x, .. } if x == &t)).count();
            let kind = sys.cfg.spec(&t).kind;
            if kind != Kind::A && n != 1 {
                ctx.violation(format!("not-exactly-once:{:?}:{}", kind, n), format!("{} executed {} times in a successful one-shot run", t, n));
            }
        }
    }
}

/// C10: every maximal path of the restricted system ends exited, with every child killed-or-exited and reaped
pub fn c10_terminal(sys: &Sys, ctx: &mut Ctx) {
    let cfg = &sys.cfg;
    let exit_path = sys.sig_arrived || sys.run_result().is_some();
    if sys.sig_arrived {
        ctx.count("terminal states after a signal");
    }
    if matches!(sys.run_result(), Some(Err(_))) {
        ctx.count("terminal states after a failure exit");
    }
    if !exit_path {
        // no signal, run still going: legitimately parked (service root / watch) or a C04 matter
        return;
    }
    if !sys.main_done() {
        let (fp, detail) = describe_stuck(sys);
        let why = if sys.sig_arrived && sys.run_result().is_none() { "signal arrived but the run never returned" } else { "run returned but terminate() never completed" };
        ctx.violation(format!("exit-not-prompt: {}: {}", why, fp), format!("{} (scripts would run forever){}\n{}{}", why, if cfg.freeze_after_exit_begins { " [restricted system: no script ends by itself]" } else { "" }, detail, observation(sys)));
        return;
    }
    for c in sys.children() {
        if c.status.is_none() {
            ctx.violation(format!("process-left-behind:{}", if c.service { "service" } else { "build" }), format!("zinoma exited while the process of {} is still running", c.target));
        } else if !c.reaped {
            ctx.violation(format!("process-not-reaped:{}", if c.service { "service" } else { "build" }), format!("zinoma exited without awaiting the ended process of {}", c.target));
        }
    }
    let alive = sys.alive_actors();
    if !alive.is_empty() {
        ctx.violation("actor-left-running", format!("actors still alive at exit: {:?}", alive));
    }
}
pub fn c10_step(sys: &Sys, ev0: usize, ctx: &mut Ctx) {
    let new = sys.events_from(ev0);
    for e in &new {
        if let Ev::Sigterm = e {
            ctx.count("signal arrivals");
            if sys.q_len() > 0 || sys.stage_full() {
                ctx.count("signal arrivals with >=1 message in flight");
            }
            if sys.relay_parked_in_forward().is_some() {
                ctx.count("signal arrivals while the relay is parked in a forward");
            }
            if sys.children().iter().any(|c| c.status.is_none()) {
                ctx.count("signal arrivals while a process runs");
            }
        }
    }
}

/// C11
pub fn c11_step(sys: &Sys, ev0: usize, ctx: &mut Ctx) {
    let new = sys.events_from(ev0);
    let cfg = &sys.cfg;
    let interesting = new.iter().any(|e| matches!(e, Ev::Spawn { .. } | Ev::Finish { .. } | Ev::RunReturned { .. }));
    if !interesting {
        return;
    }
    let all = sys.events_from(0);
    let ch = sys.children();
    for (off, e) in new.iter().enumerate() {
        let before = &all[..ev0 + off];
        match e {
            Ev::RunReturned { result: Ok(()) } => {
                let signalled = before.iter().any(|e| matches!(e, Ev::SigtermConsumed));
                if !cfg.watch && !signalled && !cfg.root_services().is_empty() {
                    ctx.violation("exited-under-requested-service", format!("one-shot run returned Ok without a signal although services {:?} were requested", cfg.root_services()));
                }
                if !signalled {
                    ctx.count("run returned Ok without signal");
                }
            }
            Ev::Spawn { t, child, service } => {
                if *service {
                    ctx.count("service starts");
                    // (c) no overlap
                    for c in ch.iter().filter(|c| &c.target == t && c.idx < *child) {
                        // reaped before this spawn?
                        let reaped_before = before.iter().any(|e| matches!(e, Ev::Reap { child: x, .. } if *x == c.idx));
                        if !reaped_before {
                            ctx.violation("two-instances-of-a-service", format!("service {} started a new instance while instance #{} was not stopped and reaped", t, c.idx));
                        }
                    }
                    if ch.iter().any(|c| &c.target == t && c.idx < *child) {
                        ctx.count("service restarts");
                    }
                }
                if !*service {
                    check_services_live(sys, before, t, "start", ctx);
                    // watch mode: once a service has taken note that it is out of date (a change to its own inputs,
                    // or an out-of-date notice from below) and every message has been delivered since, the builds
                    // above it know: none of them may start before the service has restarted
                    if cfg.watch && !before.iter().any(|e| matches!(e, Ev::RunReturned { .. } | Ev::Sigterm)) {
                        for s in cfg.deps_star(t) {
                            if cfg.spec(&s).kind != Kind::S {
                                continue;
                            }
                            let i_live = match before.iter().rposition(|e| matches!(e, Ev::Spawn { t: x, .. } if x == &s)) {
                                Some(i) => i,
                                None => continue,
                            };
                            let noted = before.iter().enumerate().skip(i_live).find(|(_, e)| match e {
                                Ev::Consume { t: x, slot: Slot::Invalidation, .. } => x == &s,
                                Ev::Consume { t: x, slot: Slot::Inbox, desc } => x == &s && desc.starts_with("Invalidated"),
                                _ => false,
                            });
                            if let Some((c, _)) = noted {
                                ctx.count("watch: build starts above a service that is out of date");
                                if sys.quiescent_before > c {
                                    ctx.violation("build-started-while-a-restart-of-its-service-was-pending", format!("{} started although service {} (in its dependency closure) took note that it is out of date after its running instance was started, every message had been delivered since, and {} has not restarted yet", t, s, s));
                                }
                            }
                        }
                    }
                }
            }
            Ev::Finish { t, code: 0, .. } => check_services_live(sys, before, t, "finish", ctx),
            _ => {}
        }
    }
}
fn check_services_live(sys: &Sys, before: &[Ev], b: &str, what: &str, ctx: &mut Ctx) {
    let cfg = &sys.cfg;
    // only in runs where shutdown has not begun
    if before.iter().any(|e| matches!(e, Ev::RunReturned { .. } | Ev::Sigterm)) {
        return;
    }
    // in watch mode a service may legitimately be restarting while an already running build goes on
    for s in cfg.deps_star(b) {
        if cfg.spec(&s).kind != Kind::S {
            continue;
        }
        ctx.count("build start/finish with a service dependency");
        // latest instance of s must be live
        let mut live = false;
        let mut last_spawn = None;
        for e in before {
            match e {
                Ev::Spawn { t, child, .. } if t == &s => {
                    live = true;
                    last_spawn = Some(*child);
                }
                Ev::Kill { t, child } if t == &s && Some(*child) == last_spawn => live = false,
                _ => {}
            }
        }
        if !live && !(cfg.watch && what == "finish") {
            ctx.violation(format!("service-dependency-not-running-at-build-{}", what), format!("service {} is not running at the {} of build {} which depends on it", s, what, b));
        }
    }
}
pub fn c11_terminal(sys: &Sys, ctx: &mut Ctx) {
    let cfg = &sys.cfg;
    if cfg.watch || !failures(&sys.events_from(0)).is_empty() {
        return;
    }
    let rs = cfg.root_services();
    if !sys.sig_arrived {
        if !rs.is_empty() {
            ctx.count("terminal states under a requested service");
            if sys.main_done() || sys.run_result().is_some() {
                ctx.violation("exited-under-requested-service", format!("no signal was sent but zinoma exited although {:?} were requested", rs));
            } else if everything_executed(sys) {
                for s in &rs {
                    let live = sys.children().iter().any(|c| &c.target == s && c.status.is_none());
                    if !live {
                        ctx.violation("requested-service-not-running", format!("zinoma is parked for a signal but requested service {} has no live process", s));
                    }
                }
            }
            // (a deadlock before everything ran is C04's finding, not reported here)
        } else {
            ctx.count("terminal states without a requested service");
            if sys.main_done() {
                for c in sys.children() {
                    if c.service && !(c.killed && c.reaped) {
                        ctx.violation("dependency-only-service-not-stopped-at-exit", format!("service {} (only a dependency) was not killed and reaped when zinoma exited", c.target));
                    }
                }
            } else if everything_executed(sys) && sys.q_len() == 0 && sys.relay_parked_in_forward().is_none() && sys.blocked_senders().is_empty() {
                let has_service = cfg.closure().iter().any(|t| cfg.spec(t).kind == Kind::S);
                // everything ran, nothing in flight, yet zinoma does not exit
                let (fp, _) = describe_stuck(sys);
                if has_service && fp.is_empty() {
                    ctx.violation("kept-alive-by-a-dependency-only-service", "every target ran, no service was requested, but zinoma does not exit".to_string());
                }
            }
        }
    }
}

/// C17 (1): in the restricted system R_X, X starts on every maximal path
pub fn c17_terminal_for(x: String) -> impl Fn(&Sys, &mut Ctx) + Send + Sync {
    move |sys: &Sys, ctx: &mut Ctx| {
        ctx.count("terminal states of restricted systems");
        let evs = sys.events_from(0);
        if !spawned(&evs, &x) {
            let (fp, detail) = describe_stuck(sys);
            ctx.violation(
                format!("waits-for-a-non-dependency:{:?}: {}", sys.cfg.spec(&x).kind, fp),
                format!("{} never starts when the scripts of targets it does not depend on ({:?}) run forever\n{}{}", x, sys.cfg.no_finish, detail, observation(sys)),
            );
        }
    }
}
/// C17 (2): witnesses of pairs running at the same time
pub fn c17_step(sys: &Sys, ev0: usize, ctx: &mut Ctx) {
    let new = sys.events_from(ev0);
    if !new.iter().any(|e| matches!(e, Ev::Spawn { .. })) {
        return;
    }
    let live: Vec<String> = sys.children().iter().filter(|c| c.status.is_none()).map(|c| c.target.clone()).collect();
    for i in 0..live.len() {
        for j in 0..live.len() {
            if live[i] < live[j] {
                ctx.count(&format!("both running: {},{}", live[i], live[j]));
            }
        }
    }
}

// ---------------------------------------------------------------------------------------
// drivers

pub struct SweepOut {
    pub per: Vec<(Cfg, Stats)>,
    pub total: Stats,
    pub per_cfg: Vec<(String, u64, u64, bool)>,
    pub findings: Vec<Finding>,
}

/// Explore every configuration; parallel across configurations when there are many, inside otherwise.
pub fn sweep(cfgs: Vec<Cfg>, checks: &(dyn Fn(&Cfg) -> Checks + Sync), deadline: Option<Instant>, max_states: u64) -> SweepOut {
    let threads = std::thread::available_parallelism().map(|n| n.get()).unwrap_or(8).min(16);
    let run = |c: &Cfg, th: usize, cap: u64| -> (String, Stats) {
        let cfg = Arc::new(c.clone());
        let ch = checks(c);
        let opts = Opts { threads: th, max_states: cap, deadline, ..Default::default() };
        let st = explore(&cfg, &ch, &opts);
        (c.short(), st)
    };
    // phase 1: every configuration on one thread each, in parallel, with a small state cap;
    // phase 2: the configurations that hit that cap are redone from scratch with all threads inside.
    let small_cap = 40_000u64.min(max_states);
    // explorations on real files are latency-bound (blocking-pool hops), not CPU-bound: oversubscribe
    let inner_threads = |c: &Cfg| if c.real_incremental { threads * 3 } else { threads };
    let mut results: Vec<(String, Stats)> = if cfgs.len() >= 4 { par_map(&cfgs, threads, |c| run(c, 1, small_cap)) } else { cfgs.iter().map(|c| run(c, inner_threads(c), max_states)).collect() };
    if cfgs.len() >= 4 {
        for (i, c) in cfgs.iter().enumerate() {
            if results[i].1.capped && !deadline.map(|d| Instant::now() > d).unwrap_or(false) {
                results[i] = run(c, inner_threads(c), max_states);
            }
        }
    }
    let mut total = Stats::default();
    let mut per_cfg = vec![];
    let mut findings: BTreeMap<String, Finding> = BTreeMap::new();
    for (name, st) in &results {
        total.merge(st);
        per_cfg.push((name.clone(), st.states, st.transitions, st.capped));
        for (k, f) in &st.findings {
            match findings.get(k) {
                Some(old) if old.actions.len() <= f.actions.len() => {}
                _ => {
                    findings.insert(k.clone(), f.clone());
                }
            }
        }
    }
    total.wall_s = results.iter().map(|(_, s)| s.wall_s).sum();
    let per = cfgs.iter().cloned().zip(results.into_iter().map(|(_, s)| s)).collect();
    SweepOut { per, total, per_cfg, findings: findings.into_values().collect() }
}

pub fn fill_report(rep: &mut Report, out: &SweepOut, label: &str) {
    rep.add_u64("states", out.total.states);
    rep.add_u64("transitions", out.total.transitions);
    rep.add_u64("traces_validated_against_impl", out.total.executions);
    rep.add_u64("executions", out.total.executions);
    rep.add_u64("terminal_states", out.total.terminals);
    rep.add_u64("configs", out.per_cfg.len() as u64);
    let md = rep.coverage.get("max_depth").and_then(|v| v.as_u64()).unwrap_or(0).max(out.total.max_depth);
    rep.set("max_depth", json!(md));
    let capped: Vec<&String> = out.per_cfg.iter().filter(|c| c.3).map(|c| &c.0).collect();
    let mut caps = rep.coverage.get("caps_hit").cloned().unwrap_or(json!([]));
    if !capped.is_empty() {
        caps.as_array_mut().unwrap().push(json!({"part": label, "configurations_not_completed": capped.len(), "of": out.per_cfg.len(), "first": capped.iter().take(3).collect::<Vec<_>>()}));
    }
    rep.set("caps_hit", caps);
    let mut parts = rep.coverage.get("parts").cloned().unwrap_or(json!({}));
    let largest: Vec<serde_json::Value> = {
        let mut v = out.per_cfg.clone();
        v.sort_by_key(|c| std::cmp::Reverse(c.1));
        v.truncate(3);
        v.iter().map(|c| json!({"cfg": c.0, "states": c.1, "transitions": c.2})).collect()
    };
    let hits: BTreeMap<&String, &u64> = out.total.counters.iter().filter(|(k, _)| !k.starts_with("both running")).collect();
    parts[label] = json!({
        "configs": out.per_cfg.len(),
        "states": out.total.states,
        "transitions": out.total.transitions,
        "executions": out.total.executions,
        "terminal_states": out.total.terminals,
        "distinct_terminal_observations": out.total.observations.len(),
        "action_counts": out.total.action_counts,
        "monitor_antecedent_hits": hits,
        "largest_configs": largest,
        "wall_cpu_s": out.total.wall_s,
    });
    rep.set("parts", parts);
    if let Some((name, _, _, _)) = out.per_cfg.first() {
        rep.push_sample(json!({"part": label, "configuration": name, "a_complete_schedule": out.total.sample_terminal_trace.iter().map(|a| format!("{:?}", a)).collect::<Vec<_>>(), "terminal_observations": out.total.observations.keys().take(4).collect::<Vec<_>>()}));
    }
    rep.add_findings(out.findings.iter());
}

pub fn finalize(rep: &mut Report) {
    let caps = rep.coverage.get("caps_hit").and_then(|v| v.as_array()).map(|a| a.len()).unwrap_or(0);
    rep.set("exhaustive", json!(caps == 0));
    for a in [
        "virtual child processes behave like real ones w.r.t. spawn/kill/status (bound by binbox replays)",
        "the harness replicates the ten wiring lines of main.rs (channels, engine::run, terminate)",
        "send_to_requesters fan-out order is explored as ascending and descending only",
    ] {
        if !rep.assumptions.iter().any(|x| x == a) {
            rep.assumptions.push(a.into());
        }
    }
}

fn deadline(rep: &Report, quick_s: u64, thorough_s: u64) -> Option<Instant> {
    Some(Instant::now() + Duration::from_secs(if rep.thorough() { thorough_s } else { quick_s }))
}

fn small_cfgs(max_n: usize, max_roots: usize) -> Vec<Cfg> {
    let mut v = vec![];
    for n in 1..=max_n {
        v.extend(shape_cfgs(n, max_roots));
    }
    v
}

fn distinct_roots(c: &Cfg) -> bool {
    let s: BTreeSet<&String> = c.roots.iter().collect();
    s.len() == c.roots.len()
}

/// The shared one-shot configuration sweep (DESIGN §3.6).
/// quick: every graph <=2 targets x requested lists <=2 (duplicates included) in both fan-out orders,
///        every graph with 3 targets x requested lists <=2 without duplicates, ascending order;
/// thorough: every graph <=3 x lists <=2 x both orders.
pub fn oneshot_small(thorough: bool) -> Vec<Cfg> {
    if thorough {
        return with_orders(small_cfgs(3, 2));
    }
    let mut v = with_orders(small_cfgs(2, 2));
    v.extend(shape_cfgs(3, 2).into_iter().filter(distinct_roots));
    v
}

fn with_orders(cfgs: Vec<Cfg>) -> Vec<Cfg> {
    // descending fan-out order only matters when some target has >= 2 requesters
    let mut out = vec![];
    for c in cfgs {
        let mut indeg: BTreeMap<&str, usize> = BTreeMap::new();
        for t in &c.targets {
            for d in t.deps.iter().chain(t.from.iter()) {
                *indeg.entry(d.as_str()).or_insert(0) += 1;
            }
        }
        for r in &c.roots {
            *indeg.entry(r.as_str()).or_insert(0) += 1;
        }
        let multi = indeg.values().any(|&n| n >= 2);
        if multi {
            let mut d = c.clone();
            d.desc_order = true;
            out.push(c);
            out.push(d);
        } else {
            out.push(c);
        }
    }
    out
}

pub fn noop_step(_: &Sys, _: usize, _: &mut Ctx) {}

fn named4_for(thorough: bool) -> Vec<Cfg> {
    if thorough {
        return with_orders(named4());
    }
    let keep = ["diamond-S-middle", "agg-over-two-services", "agg-over-B+S", "nested-aggregates", "B-S-B-chain", "two-roots-sharing-leaf", "dep-before-dependent", "dependent-before-dep", "build-over-aggregate-of-two-builds", "service-over-aggregate-of-build-and-service", "aggregate-diamond"];
    named4().into_iter().filter(|c| keep.contains(&c.name.as_str())).collect()
}

fn exact_cfgs(caps: &[usize], max_n: usize) -> Vec<Cfg> {
    let mut exact = vec![];
    for &c in caps {
        for base in small_cfgs(max_n, 2).into_iter().filter(distinct_roots).chain(vec![fan_out(if max_n >= 3 { c + 1 } else { 2 }, Kind::A, Kind::B), fan_in(2, Kind::B), chain(3)]) {
            let mut e = base.clone();
            e.exact = true;
            e.cap = Some(c);
            exact.push(e);
        }
    }
    exact
}

pub fn check_c04(rep: &mut Report) {
    let mk = |_: &Cfg| Checks { step: Box::new(noop_step), terminal: Box::new(|s, c| { c04_terminal(s, c); observation(s) }) };
    // (i) reduced mode
    let dl = deadline(rep, 150, 1800);
    let out = sweep(oneshot_small(rep.thorough()), &mk, dl, 3_000_000);
    fill_report(rep, &out, "reduced: all graphs <=3 targets x requested lists <=2");
    let out = sweep(named4_for(rep.thorough()), &mk, dl, 3_000_000);
    fill_report(rep, &out, "reduced: named 4-target shapes");
    // (ii) exact mode: relay as an action, queue capacities 1..2 (3 thorough)
    let caps: Vec<usize> = if rep.thorough() { vec![1, 2, 3] } else { vec![1, 2] };
    let out = sweep(exact_cfgs(&caps, if rep.thorough() { 3 } else { 2 }), &mk, dl, 2_000_000);
    fill_report(rep, &out, "exact: relay as action, queue capacity 1..2(3), graphs <=2 targets + fan-out/fan-in/chain");
    if rep.thorough() {
        let out = sweep(with_orders(shape_cfgs(4, 1)), &mk, dl, 3_000_000);
        fill_report(rep, &out, "reduced: all graphs with 4 targets, single root");
        let mut coarse = named5();
        for c in coarse.iter_mut() {
            c.coarse = true;
        }
        let out = sweep(coarse, &mk, dl, 5_000_000);
        fill_report(rep, &out, "handler-level (under-approximation, labelled): named 5-target shapes");
    }
    selfcheck_reduced_vs_exact(rep);
    finalize(rep);
}

fn std_checks(step: fn(&Sys, usize, &mut Ctx), term: fn(&Sys, &mut Ctx)) -> impl Fn(&Cfg) -> Checks + Sync {
    move |_: &Cfg| Checks { step: Box::new(step), terminal: Box::new(move |s, c| { term(s, c); observation(s) }) }
}
fn noop_term(_: &Sys, _: &mut Ctx) {}

fn leaves(c: &Cfg) -> Vec<String> {
    c.targets.iter().filter(|t| t.kind != Kind::A).map(|t| t.name.clone()).collect()
}
fn builds(c: &Cfg) -> Vec<String> {
    c.targets.iter().filter(|t| t.kind == Kind::B).map(|t| t.name.clone()).collect()
}
fn single_root(c: &Cfg) -> bool {
    c.roots.len() == 1
}
fn with_inputs(mut c: Cfg) -> Cfg {
    for t in c.targets.iter_mut() {
        if t.kind != Kind::A {
            t.has_input = true;
        }
    }
    c
}

/// watch-mode configurations (scheduling only): every leaf has an input, `budget` notifications
fn watch_cfgs(max_n: usize, max_roots: usize, budget: u32) -> Vec<Cfg> {
    small_cfgs(max_n, max_roots)
        .into_iter()
        .filter(distinct_roots)
        .map(|c| {
            let mut c = with_inputs(c);
            c.watch = true;
            c.notify_budget = budget;
            c
        })
        .collect()
}

pub fn check_c01(rep: &mut Report) {
    let mk = std_checks(c01_step, noop_term);
    let dl = deadline(rep, 150, 1800);
    let out = sweep(oneshot_small(rep.thorough()), &mk, dl, 3_000_000);
    fill_report(rep, &out, "one-shot, reduced: all graphs <=3 targets x requested lists <=2");
    let out = sweep(named4_for(rep.thorough()), &mk, dl, 3_000_000);
    fill_report(rep, &out, "one-shot, reduced: named 4-target shapes");
    // failing singletons (both outcomes explored)
    let mut failing = vec![];
    for c in small_cfgs(if rep.thorough() { 3 } else { 2 }, 2).into_iter().filter(distinct_roots) {
        for b in builds(&c) {
            let mut f = c.clone();
            f.may_fail = vec![b];
            failing.push(f);
        }
    }
    let by_signal: Vec<Cfg> = failing.iter().filter(|c| c.targets.len() <= 2).map(|c| { let mut c = c.clone(); c.fail_by_signal = true; c }).collect();
    let out = sweep(failing, &mk, dl, 3_000_000);
    fill_report(rep, &out, "one-shot, reduced: one build may fail");
    let out = sweep(by_signal, &mk, dl, 3_000_000);
    fill_report(rep, &out, "one-shot, reduced: one build may die of a signal (graphs <=2 targets)");
    // watch mode: after each out-of-date notice
    let out = sweep(watch_cfgs(2, 2, if rep.thorough() { 2 } else { 1 }), &mk, dl, 3_000_000);
    fill_report(rep, &out, "watch, reduced: graphs <=2 targets, notification budget 1 (2 thorough)");
    if !rep.thorough() {
        // two notifications where one target depends on the other (a restart or re-run below, then the dependent's own change)
        let w2: Vec<Cfg> = watch_cfgs(2, 1, 2).into_iter().filter(|c| c.targets.len() == 2 && c.targets.iter().any(|t| !t.deps.is_empty())).collect();
        let out = sweep(w2, &mk, dl, 3_000_000);
        fill_report(rep, &out, "watch, reduced: two dependent targets, single root, notification budget 2");
    }
    let wf: Vec<Cfg> = watch_cfgs(2, 2, 1).into_iter().filter(|c| !builds(c).is_empty()).map(|mut c| { c.may_fail = builds(&c); c }).collect();
    let out = sweep(wf, &mk, dl, 3_000_000);
    fill_report(rep, &out, "watch, reduced: graphs <=2 targets x requested lists <=2, every build may fail, one notification");
    let w3: Vec<Cfg> = watch_cfgs(3, 1, 1).into_iter().filter(|c| c.targets.len() == 3).collect();
    let w3: Vec<Cfg> = if rep.thorough() { w3 } else { w3.into_iter().filter(|c| c.targets.iter().all(|t| t.kind != Kind::A || !t.deps.is_empty())).step_by(6).collect() };
    let out = sweep(w3, &mk, dl, 1_500_000);
    fill_report(rep, &out, "watch, reduced: graphs with 3 targets, single root, budget 1 (quick: every sixth shape)");
    if rep.thorough() {
        let out = sweep(with_orders(shape_cfgs(4, 1)), &mk, dl, 3_000_000);
        fill_report(rep, &out, "one-shot, reduced: all graphs with 4 targets, single root");
    }
    finalize(rep);
}

pub fn check_c07(rep: &mut Report) {
    let mk = std_checks(c07_step, c07_terminal);
    let dl = deadline(rep, 150, 1800);
    // every subset of failing builds: each build may fail or succeed (both outcomes at every finish)
    let mut v = vec![];
    let base: Vec<Cfg> = if rep.thorough() { small_cfgs(3, 2).into_iter().filter(distinct_roots).collect() } else { small_cfgs(2, 2).into_iter().filter(distinct_roots).chain(shape_cfgs(3, 1)).collect() };
    for c in &base {
        if builds(c).is_empty() {
            continue;
        }
        let mut f = c.clone();
        f.may_fail = builds(c);
        v.push(f);
    }
    let out = sweep(v, &mk, dl, 3_000_000);
    fill_report(rep, &out, "one-shot: every build may exit non-zero (all subsets of failing builds)");
    // launch failures: every singleton (quick) / every non-empty subset (thorough) of leaves cannot be launched
    let mut v = vec![];
    for c in &base {
        let ls = leaves(c);
        let n = ls.len();
        for mask in 1u32..(1 << n) {
            if !rep.thorough() && mask.count_ones() != 1 {
                continue;
            }
            let mut f = c.clone();
            f.launch_fail = (0..n).filter(|i| mask & (1 << i) != 0).map(|i| ls[i].clone()).collect();
            f.may_fail = builds(c).into_iter().filter(|b| !f.launch_fail.contains(b)).collect();
            v.push(f);
        }
    }
    let out = sweep(v, &mk, dl, 3_000_000);
    fill_report(rep, &out, "one-shot: targets that cannot be launched (singletons; all subsets thorough) x other builds may fail");
    // named 4 shapes with every build failing-or-not
    let mut v = vec![];
    for c in named4_for(rep.thorough()) {
        let mut f = c.clone();
        f.may_fail = builds(&c);
        v.push(f);
    }
    let v: Vec<Cfg> = if rep.thorough() { v } else { v.into_iter().filter(|c| c.name != "two-roots-sharing-leaf" && c.name != "diamond-S-middle").collect() };
    let out = sweep(v, &mk, dl, 3_000_000);
    fill_report(rep, &out, "one-shot: named 4-target shapes, every build may fail");
    // exact mode, small queues: a failure must get through also when the output queue is full
    let mut v = vec![];
    let caps: Vec<usize> = if rep.thorough() { vec![1, 2] } else { vec![1] };
    for cap in caps {
        for c in small_cfgs(2, 2).into_iter().filter(distinct_roots).chain(vec![fan_out(2, Kind::A, Kind::B)]) {
            if builds(&c).is_empty() {
                continue;
            }
            for watch in [false, true] {
                // quick: watch mode only for single-root graphs
                if watch && !rep.thorough() && (c.roots.len() > 1 || c.targets.len() > 2) {
                    continue;
                }
                let mut e = c.clone();
                e.exact = true;
                e.cap = Some(cap);
                e.may_fail = builds(&c);
                e.watch = watch;
                v.push(e);
            }
        }
    }
    let out = sweep(v, &mk, dl, 3_000_000);
    fill_report(rep, &out, "exact: queue capacity 1 (thorough: and 2), graphs <=2 targets + fan-out 2, one-shot and watch (quick: single root), every build may fail");
    // watch mode: failure reported, dependents blocked, relay keeps going, later change handled
    let mut v = vec![];
    for c in watch_cfgs(if rep.thorough() { 3 } else { 2 }, 2, 1) {
        if builds(&c).is_empty() {
            continue;
        }
        let mut f = c.clone();
        f.may_fail = builds(&c);
        v.push(f.clone());
        for l in leaves(&c) {
            let mut g = c.clone();
            g.launch_fail = vec![l];
            v.push(g);
        }
    }
    let out = sweep(v, &mk, dl, 3_000_000);
    fill_report(rep, &out, "watch: every build may fail / one leaf cannot be launched, one later notification");
    // watch, three-target chains: the bottom is rebuilt and may fail, then the top's own input changes
    let mut v = vec![];
    let chains: Vec<[Kind; 3]> = if rep.thorough() { vec![[Kind::B, Kind::S, Kind::B], [Kind::B, Kind::A, Kind::B], [Kind::B, Kind::B, Kind::B], [Kind::S, Kind::S, Kind::B], [Kind::S, Kind::B, Kind::B], [Kind::S, Kind::A, Kind::B]] } else { vec![[Kind::B, Kind::S, Kind::B], [Kind::B, Kind::B, Kind::B], [Kind::S, Kind::A, Kind::B]] };
    for kinds in chains {
        let mut c = cfg("watch-chain", vec![t("top", kinds[0], &["mid"]), t("mid", kinds[1], &["base"]), t("base", kinds[2], &[])], &["top"]);
        c.watch = true;
        c.notify_budget = 2;
        c.targets[0].has_input = true;
        c.targets[2].has_input = true;
        c.may_fail = vec!["base".into()];
        v.push(c);
    }
    let out = sweep(v, &mk, dl, 3_000_000);
    fill_report(rep, &out, "watch: chains top->mid->base (mid a service, aggregate or build), base may fail on its re-run, two notifications (base's and top's inputs)");
    // a failing script may also die of a signal
    let mut v = vec![];
    for c in small_cfgs(2, 1) {
        if builds(&c).is_empty() {
            continue;
        }
        let mut f = c.clone();
        f.may_fail = builds(&c);
        f.fail_by_signal = true;
        v.push(f);
    }
    let out = sweep(v, &mk, dl, 3_000_000);
    fill_report(rep, &out, "one-shot: graphs <=2 targets, a failing script is killed by a signal instead of exiting non-zero");
    finalize(rep);
}

pub fn check_c08(rep: &mut Report) {
    let mk = std_checks(c08_step, c08_terminal);
    let dl = deadline(rep, 150, 1800);
    let out = sweep(oneshot_small(rep.thorough()), &mk, dl, 3_000_000);
    fill_report(rep, &out, "reduced: all graphs <=3 targets x requested lists <=2 (dependency together with dependent, both orders)");
    // duplicates in the requested list, lists up to 3
    let dup: Vec<Cfg> = with_orders(small_cfgs(2, 3));
    let out = sweep(dup, &mk, dl, 3_000_000);
    fill_report(rep, &out, "reduced: graphs <=2 targets x requested lists <=3 with duplicates");
    let out = sweep(named4_for(rep.thorough()), &mk, dl, 3_000_000);
    fill_report(rep, &out, "reduced: named 4-target shapes");
    // at most once also when something fails or a signal arrives
    let mut v = vec![];
    for c in small_cfgs(2, 2).into_iter().chain(if rep.thorough() { shape_cfgs(3, 1) } else { vec![] }) {
        let mut f = c.clone();
        f.may_fail = builds(&c);
        f.sigterm = true;
        v.push(f);
    }
    let out = sweep(v, &mk, dl, 3_000_000);
    fill_report(rep, &out, "reduced: graphs <=2 targets (3 thorough), every build may fail, signal at every state");
    finalize(rep);
}

pub fn check_c10(rep: &mut Report) {
    let mk = std_checks(c10_step, c10_terminal);
    let dl = deadline(rep, 150, 1800);
    // exact mode, signal at every state, afterwards no script ends by itself
    let mut v = vec![];
    // capacity 1 and 2 (thorough: also the real capacity 64, where nothing ever blocks)
    let caps: Vec<Option<usize>> = if rep.thorough() { vec![Some(1), Some(2), None] } else { vec![Some(1), Some(2)] };
    let base: Vec<Cfg> = small_cfgs(2, 2).into_iter().filter(distinct_roots).collect();
    for cap in &caps {
        for c in &base {
            for watch in [false, true] {
                let mut e = c.clone();
                e.exact = true;
                e.cap = *cap;
                e.sigterm = true;
                e.freeze_after_exit_begins = true;
                e.watch = watch;
                v.push(e);
            }
        }
    }
    let out = sweep(v, &mk, dl, 3_000_000);
    fill_report(rep, &out, "exact: graphs <=2 targets, one-shot and watch, queue capacity 1 and 2 (thorough: and 64), signal injected at every state, restricted afterwards");
    // watch mode with changes: builds are re-run and services restarted (through their own inputs and through
    // their dependencies) before the signal; every shell ever spawned must be gone at exit
    let mut v = vec![];
    for c in watch_cfgs(2, 2, if rep.thorough() { 2 } else { 1 }) {
        let mut e = c.clone();
        e.sigterm = true;
        e.freeze_after_exit_begins = true;
        v.push(e);
    }
    let out = sweep(v, &mk, dl, 3_000_000);
    fill_report(rep, &out, "watch, reduced: graphs <=2 targets, every leaf has inputs, 1 notification (2 thorough), signal injected at every state, restricted afterwards");
    // failure exit path
    let mut v = vec![];
    for c in &base {
        if builds(c).is_empty() {
            continue;
        }
        let mut e = c.clone();
        e.exact = true;
        e.cap = Some(2);
        e.may_fail = builds(c);
        e.freeze_after_exit_begins = true;
        v.push(e.clone());
        for l in leaves(c) {
            let mut g = e.clone();
            g.may_fail = vec![];
            g.launch_fail = vec![l];
            v.push(g);
        }
    }
    let out = sweep(v, &mk, dl, 3_000_000);
    fill_report(rep, &out, "exact: failure exit path (every build may fail / a leaf cannot be launched), restricted afterwards");
    // three targets, reduced mode (relay eager), signal at every state
    let mut v = vec![];
    let three: Vec<Cfg> = if rep.thorough() { shape_cfgs(3, 2).into_iter().filter(distinct_roots).collect() } else { shape_cfgs(3, 1).into_iter().step_by(5).collect() };
    for c in three {
        let mut e = c.clone();
        e.sigterm = true;
        e.freeze_after_exit_begins = true;
        v.push(e);
    }
    let out = sweep(v, &mk, dl, 3_000_000);
    fill_report(rep, &out, "reduced: graphs with 3 targets (quick: every fifth shape, single root), signal injected at every state, restricted afterwards");
    let mut v = vec![];
    for c in named4_for(false).into_iter().filter(|c| rep.thorough() || ["agg-over-B+S", "B-S-B-chain"].contains(&c.name.as_str())) {
        let mut e = c.clone();
        e.sigterm = true;
        e.freeze_after_exit_begins = true;
        v.push(e);
    }
    if rep.thorough() {
        // fan-out wider than the queue in exact mode
        for k in [3usize, 4] {
            let mut e = fan_out(k, Kind::A, Kind::B);
            e.exact = true;
            e.cap = Some(2);
            e.sigterm = true;
            e.freeze_after_exit_begins = true;
            v.push(e);
        }
    }
    let out = sweep(v, &mk, dl, 5_000_000);
    fill_report(rep, &out, "reduced: named 4-target shapes with signal (thorough: + exact fan-out 3,4 at capacity 2)");
    check_phases(rep, "real incremental runner, every phase of the build cycle a parking point: signal / sibling failure at every state", true);
    finalize(rep);
}

fn has_service(c: &Cfg) -> bool {
    c.targets.iter().any(|t| t.kind == Kind::S)
}

pub fn check_c11(rep: &mut Report) {
    let mk = std_checks(c11_step, c11_terminal);
    let dl = deadline(rep, 150, 1800);
    let out = sweep(oneshot_small(rep.thorough()).into_iter().filter(has_service).collect(), &mk, dl, 3_000_000);
    fill_report(rep, &out, "one-shot, reduced: all graphs <=3 targets containing a service x requested lists <=2");
    let out = sweep(named4_for(rep.thorough()).into_iter().filter(has_service).collect(), &mk, dl, 3_000_000);
    fill_report(rep, &out, "one-shot, reduced: named 4-target shapes containing a service");
    // with a signal: dependency-only services are stopped at exit, requested ones only then
    let mut v = vec![];
    for c in small_cfgs(2, 2).into_iter().filter(has_service).filter(distinct_roots) {
        let mut e = c.clone();
        e.sigterm = true;
        v.push(e);
    }
    let out = sweep(v, &mk, dl, 3_000_000);
    fill_report(rep, &out, "one-shot, reduced: graphs <=2 targets with a service, signal at every state");
    // watch mode: restarts never overlap
    let budget = if rep.thorough() { 3 } else { 2 };
    let v: Vec<Cfg> = watch_cfgs(2, 2, budget).into_iter().filter(has_service).collect();
    let out = sweep(v, &mk, dl, 3_000_000);
    fill_report(rep, &out, "watch, reduced: graphs <=2 targets with a service, notification budget 2 (3 thorough)");
    // three-target chains through a service: the bottom is rebuilt (the service has to restart) while the top's
    // own inputs change too: the top may not run across the restart
    let mut v = vec![];
    let chains: Vec<[Kind; 3]> = if rep.thorough() { vec![[Kind::B, Kind::S, Kind::B], [Kind::B, Kind::S, Kind::S], [Kind::S, Kind::S, Kind::B], [Kind::B, Kind::A, Kind::S]] } else { vec![[Kind::B, Kind::S, Kind::B], [Kind::B, Kind::S, Kind::S]] };
    for kinds in chains {
        let mut c = cfg("watch-chain", vec![t("top", kinds[0], &["mid"]), t("mid", kinds[1], &["base"]), t("base", kinds[2], &[])], &["top"]);
        c.watch = true;
        c.notify_budget = 2;
        c.targets[0].has_input = true;
        c.targets[2].has_input = true;
        if rep.thorough() && kinds[1] != Kind::A {
            c.targets[1].has_input = true;
        }
        v.push(c);
    }
    let out = sweep(v, &mk, dl, 3_000_000);
    fill_report(rep, &out, "watch, reduced: chains top->mid->base through a service, two notifications (the inputs of base and of top; thorough: and of mid)");
    if rep.thorough() {
        let v: Vec<Cfg> = watch_cfgs(3, 1, 1).into_iter().filter(has_service).filter(|c| c.targets.len() == 3).collect();
        let out = sweep(v, &mk, dl, 3_000_000);
        fill_report(rep, &out, "watch, reduced: graphs with 3 targets with a service, budget 1");
    }
    finalize(rep);
}

pub fn check_c17(rep: &mut Report) {
    let dl = deadline(rep, 150, 1800);
    // (1) restricted systems R_X
    let base: Vec<Cfg> = if rep.thorough() { oneshot_small(false).into_iter().chain(named4_for(false)).collect() } else { small_cfgs(2, 2).into_iter().filter(distinct_roots).chain(shape_cfgs(3, 1)).chain(named4_for(false).into_iter().filter(|c| c.name != "two-roots-sharing-leaf" && c.name != "diamond-S-middle")).collect() };
    let mut v = vec![];
    let mut xs = vec![];
    for c in &base {
        for x in leaves(c) {
            let ds = c.deps_star(&x);
            let nf: Vec<String> = builds(c).into_iter().filter(|b| !ds.contains(b)).collect();
            if nf.iter().all(|b| b == &x) && nf.len() <= 1 && builds(c).len() <= 1 {
                continue;
            }
            let mut r = c.clone();
            r.no_finish = nf;
            r.name = format!("{} R_{}", c.name, x);
            v.push(r);
            xs.push(x);
        }
    }
    let xs_by_short: BTreeMap<String, String> = v.iter().zip(xs.iter()).map(|(c, x)| (format!("{}|{}", c.name, c.short()), x.clone())).collect();
    let mk = move |c: &Cfg| {
        let x = xs_by_short[&format!("{}|{}", c.name, c.short())].clone();
        let term = c17_terminal_for(x);
        Checks { step: Box::new(noop_step), terminal: Box::new(move |s, ctx| { term(s, ctx); observation(s) }) }
    };
    let out = sweep(v, &mk, dl, 3_000_000);
    fill_report(rep, &out, "restricted systems R_X: scripts of targets X does not depend on never end; X must start on every maximal path");
    // (2) witnesses: every pair of mutually independent leaves can be in progress at the same time
    let mk2 = std_checks(c17_step, noop_term);
    let out = sweep(base.clone(), &mk2, dl, 3_000_000);
    let mut pairs = 0u64;
    let mut samples = vec![];
    for (c, st) in &out.per {
        if st.capped {
            continue;
        }
        let ls = leaves(c);
        for i in 0..ls.len() {
            for j in 0..ls.len() {
                if ls[i] < ls[j] && !c.deps_star(&ls[i]).contains(&ls[j]) && !c.deps_star(&ls[j]).contains(&ls[i]) {
                    pairs += 1;
                    let n = st.counters.get(&format!("both running: {},{}", ls[i], ls[j])).cloned().unwrap_or(0);
                    if n == 0 {
                        rep.violation(
                            format!("independent-pair-never-concurrent:{:?},{:?}", c.spec(&ls[i]).kind, c.spec(&ls[j]).kind),
                            format!("in {} no reachable state has {} and {} in progress at the same time although neither depends on the other", c.short(), ls[i], ls[j]),
                            json!({"engine": "actorcheck", "cfg": c, "actions": [], "cfg_short": c.short(), "note": "liveness-style finding: the exhaustive exploration of this configuration contains no state with both running"}),
                        );
                    } else if samples.len() < 3 {
                        samples.push(json!({"cfg": c.short(), "pair": [ls[i], ls[j]], "states_with_both_running": n}));
                    }
                }
            }
        }
    }
    fill_report(rep, &out, "unrestricted: witnesses for every independent pair");
    rep.set("independent_pairs_checked", json!(pairs));
    rep.set("pair_witness_samples", json!(samples));
    finalize(rep);
}

pub fn check_c20(rep: &mut Report) {
    let dl = deadline(rep, 150, 1800);
    // configurations whose single root is an aggregate
    let mut base: Vec<Cfg> = small_cfgs(3, 1).into_iter().filter(|c| c.spec(&c.roots[0]).kind == Kind::A).collect();
    base.extend(named4().into_iter().filter(|c| c.roots.len() == 1 && c.spec(&c.roots[0]).kind == Kind::A));
    if rep.thorough() {
        base.extend(shape_cfgs(4, 1).into_iter().filter(|c| c.spec(&c.roots[0]).kind == Kind::A));
    }
    let mut lhs = vec![];
    let mut rhs = vec![];
    for c in &base {
        let variants: Vec<Vec<String>> = if rep.thorough() || c.targets.len() <= 3 { std::iter::once(vec![]).chain(builds(c).into_iter().map(|b| vec![b])).collect() } else { vec![vec![]] };
        for mf in variants {
            let mut l = c.clone();
            l.may_fail = mf.clone();
            let mut r = l.clone();
            r.roots = c.spec(&c.roots[0]).deps.clone();
            // the aggregate itself is outside the closure of the right-hand side
            let keep: BTreeSet<String> = r.closure();
            r.targets.retain(|t| keep.contains(&t.name));
            lhs.push(l);
            rhs.push(r);
        }
    }
    // besides the comparison: "stays alive afterwards exactly when one of those dependencies is (or aggregates) a
    // service" is checked on each side by itself (the terminal oracle of C04: exited, or parked under a service)
    fn c20_term(sys: &Sys, ctx: &mut Ctx) {
        if failures(&sys.events_from(0)).is_empty() {
            c04_terminal(sys, ctx);
        }
    }
    let mk = std_checks(c01_step, c20_term);
    let out_l = sweep(lhs.clone(), &mk, dl, 3_000_000);
    let out_r = sweep(rhs.clone(), &mk, dl, 3_000_000);
    let mut compared = 0u64;
    for (i, ((cl, sl), (cr, sr))) in out_l.per.iter().zip(out_r.per.iter()).enumerate() {
        if sl.capped || sr.capped {
            continue;
        }
        compared += 1;
        let ol: BTreeSet<&String> = sl.observations.keys().collect();
        let or: BTreeSet<&String> = sr.observations.keys().collect();
        if ol != or {
            let only_l: Vec<&&String> = ol.difference(&or).collect();
            let only_r: Vec<&&String> = or.difference(&ol).collect();
            let class = |o: &str| -> String { o.split(" children=").next().unwrap_or("").to_string() };
            let fl: BTreeSet<String> = only_l.iter().map(|o| class(o)).collect();
            let fr: BTreeSet<String> = only_r.iter().map(|o| class(o)).collect();
            rep.violation(
                format!("aggregate-not-equivalent: only-with-aggregate={:?} only-with-dependencies={:?}", fl, fr),
                format!("requesting the aggregate vs its dependencies gives different sets of terminal observations\n  with aggregate  [{}]\n    only here: {:?}\n  with dependencies [{}]\n    only here: {:?}", cl.short(), only_l, cr.short(), only_r),
                json!({"engine": "actorcheck-pair", "cfg": cl, "cfg_rhs": cr, "actions": sl.sample_terminal_trace, "cfg_short": cl.short(), "pair_index": i}),
            );
        }
    }
    fill_report(rep, &out_l, "requested = [aggregate]");
    fill_report(rep, &out_r, "requested = dependencies of the aggregate");
    rep.set("pairs_compared", json!(compared));
    // aggregates below other targets: replacing an inner aggregate by its dependencies must not change anything
    // either, in one-shot runs and in watch mode after a notification
    let flatten = |c: &Cfg| -> Option<Cfg> {
        let inner: Vec<String> = c.targets.iter().filter(|t| t.kind == Kind::A && !c.roots.contains(&t.name)).map(|t| t.name.clone()).collect();
        if inner.is_empty() {
            return None;
        }
        let mut f = c.clone();
        for a in &inner {
            let adeps = c.spec(a).deps.clone();
            for t in f.targets.iter_mut() {
                if let Some(pos) = t.deps.iter().position(|d| d == a) {
                    t.deps.remove(pos);
                    for d in &adeps {
                        if !t.deps.contains(d) {
                            t.deps.insert(pos.min(t.deps.len()), d.clone());
                        }
                    }
                }
            }
        }
        f.targets.retain(|t| !inner.contains(&t.name));
        Some(f)
    };
    let mut lhs = vec![];
    let mut rhs = vec![];
    let candidates: Vec<Cfg> = shape_cfgs(3, 1).into_iter().chain(named4().into_iter().filter(|c| ["build-over-aggregate-of-two-builds", "service-over-aggregate-of-build-and-service", "diamond-A-middle"].contains(&c.name.as_str()))).collect();
    for c in candidates {
        if c.spec(&c.roots[0]).kind == Kind::A {
            continue;
        }
        if let Some(f) = flatten(&c) {
            for watch in [false, true] {
                if watch && c.targets.len() > 3 && !rep.thorough() {
                    continue;
                }
                let prep = |x: &Cfg| {
                    let mut x = if watch { with_inputs(x.clone()) } else { x.clone() };
                    x.watch = watch;
                    x.notify_budget = if watch { 1 } else { 0 };
                    x
                };
                lhs.push(prep(&c));
                rhs.push(prep(&f));
            }
        }
    }
    // two dependencies of the inner aggregate out of date at the same time (two notifications)
    for top in if rep.thorough() { vec![Kind::B, Kind::S] } else { vec![Kind::S] } {
        let mut c = cfg("watch: target over an aggregate of two builds, both rebuilt", vec![t("x", top, &["g"]), t("g", Kind::A, &["y1", "y2"]), t("y1", Kind::B, &[]), t("y2", Kind::B, &[])], &["x"]);
        c.watch = true;
        c.notify_budget = 2;
        c.targets[2].has_input = true;
        c.targets[3].has_input = true;
        c.coarse = true; // handler-level steps: the orders of notices and acknowledgements are what matters here
        let f = flatten(&c).unwrap();
        lhs.push(c);
        rhs.push(f);
    }
    let mk2 = |c: &Cfg| {
        let watch = c.watch;
        Checks { step: Box::new(c01_step), terminal: Box::new(move |s, _| if watch { observation_coarse(s) } else { observation(s) }) }
    };
    let out_l2 = sweep(lhs, &mk2, dl, 3_000_000);
    let out_r2 = sweep(rhs, &mk2, dl, 3_000_000);
    let mut compared2 = 0u64;
    for (i, ((cl, sl), (cr, sr))) in out_l2.per.iter().zip(out_r2.per.iter()).enumerate() {
        if sl.capped || sr.capped {
            continue;
        }
        compared2 += 1;
        let ol: BTreeSet<&String> = sl.observations.keys().collect();
        let or: BTreeSet<&String> = sr.observations.keys().collect();
        if ol != or {
            let only_l: Vec<&&String> = ol.difference(&or).collect();
            let only_r: Vec<&&String> = or.difference(&ol).collect();
            rep.violation(
                format!("inner-aggregate-not-equivalent{}: {} observation(s) only with the aggregate, {} only without", if cl.watch { " (watch)" } else { "" }, only_l.len(), only_r.len()),
                format!("replacing the inner aggregate by its dependencies changes the set of terminal observations\n  with the aggregate    [{}]\n    only here: {:?}\n  without the aggregate [{}]\n    only here: {:?}", cl.short(), only_l, cr.short(), only_r),
                json!({"engine": "actorcheck-pair", "cfg": cl, "cfg_rhs": cr, "actions": sl.sample_terminal_trace, "cfg_short": cl.short(), "pair_index": i}),
            );
        }
    }
    fill_report(rep, &out_l2, "inner aggregates kept (one-shot and watch with one notification; two notifications below an aggregate of two builds)");
    fill_report(rep, &out_r2, "inner aggregates replaced by their dependencies");
    rep.set("inner_aggregate_pairs_compared", json!(compared2));
    finalize(rep);
}

// ---------------------------------------------------------------------------------------
// C06: watch mode converges (real incremental runner, real files, virtual watcher)

fn rf(name: &str, kind: Kind, deps: &[&str], inputs: &[usize], from: &[&str], output: Option<usize>) -> TSpec {
    TSpec { name: name.into(), kind, deps: deps.iter().map(|s| s.to_string()).collect(), has_input: true, inputs: inputs.to_vec(), from: from.iter().map(|s| s.to_string()).collect(), output }
}

pub fn c06_cfgs(thorough: bool) -> Vec<Cfg> {
    let mk = |name: &str, files: &[&str], targets: Vec<TSpec>, roots: &[&str], budget: u32| {
        let mut c = cfg(name, targets, roots);
        c.files = files.iter().map(|s| s.to_string()).collect();
        c.watch = true;
        c.real_incremental = true;
        c.change_budget = budget;
        c
    };
    let b = if thorough { 2 } else { 1 };
    let mut v = vec![
        mk("single-build", &["in_t.txt", "out_t.txt"], vec![rf("t", Kind::B, &[], &[0], &[], Some(1))], &["t"], 2),
        mk("producer->consumer via output", &["in_p.txt", "out_p.txt", "in_c.txt", "out_c.txt"], vec![rf("c", Kind::B, &[], &[2], &["p"], Some(3)), rf("p", Kind::B, &[], &[0], &[], Some(1))], &["c"], b),
        mk("build->service", &["in_b.txt", "out_b.txt", "in_s.txt"], vec![rf("s", Kind::S, &[], &[2], &["b"], None), rf("b", Kind::B, &[], &[0], &[], Some(1))], &["s"], b),
        mk("producer->aggregate->consumer", &["in_p.txt", "out_p.txt", "in_c.txt", "out_c.txt"], vec![rf("c", Kind::B, &["a"], &[2], &[], Some(3)), t("a", Kind::A, &["p"]), rf("p", Kind::B, &[], &[0], &[], Some(1))], &["c"], b),
        // a consumer without any input can never be skipped: it must be re-run after each re-run of what it depends on
        mk("producer->aggregate->consumer without input", &["in_p.txt", "out_p.txt", "out_c.txt"], vec![{ let mut c = rf("c", Kind::B, &["a"], &[], &[], Some(2)); c.has_input = false; c }, t("a", Kind::A, &["p"]), rf("p", Kind::B, &[], &[0], &[], Some(1))], &["c"], 1),
        mk("producer->consumer without input", &["in_p.txt", "out_p.txt", "out_c.txt"], vec![{ let mut c = rf("c", Kind::B, &["p"], &[], &[], Some(2)); c.has_input = false; c }, rf("p", Kind::B, &[], &[0], &[], Some(1))], &["c"], 1),
    ];
    if thorough {
        v.push(mk("single-build, 3 changes", &["in_t.txt", "out_t.txt"], vec![rf("t", Kind::B, &[], &[0], &[], Some(1))], &["t"], 3));
        v.push(mk("producer->consumer + sibling", &["in_p.txt", "out_p.txt", "in_c.txt", "out_c.txt", "in_d.txt", "out_d.txt"], vec![rf("c", Kind::B, &[], &[2], &["p"], Some(3)), rf("p", Kind::B, &[], &[0], &[], Some(1)), rf("d", Kind::B, &[], &[4], &[], Some(5))], &["c", "d"], 1));
        let mut armed = mk("single-build, parked between script end and record write", &["in_t.txt", "out_t.txt"], vec![rf("t", Kind::B, &[], &[0], &[], Some(1))], &["t"], 1);
        armed.armed = vec![("t".into(), zinoma::verif::points::SCRIPT_DONE), ("t".into(), zinoma::verif::points::STATE_COMPUTED)];
        v.push(armed);
    }
    // only the producer's / first input is changed by the environment in the two-build shapes (keeps the space small);
    // the consumer's own input is changed in a second variant
    let mut extra = vec![];
    for c in v.iter_mut() {
        if c.files.len() >= 4 && c.changeable.is_empty() {
            let mut own = c.clone();
            own.name = format!("{} (consumer's own input changes)", c.name);
            own.changeable = vec![2];
            extra.push(own);
            c.changeable = vec![0];
        }
    }
    v.extend(extra);
    v
}

fn expected_content(sys: &Sys, t: &str) -> String {
    let ins: Vec<String> = sys
        .effective_inputs(t)
        .into_iter()
        .map(|f| {
            // an input that is another build's output: what that build must have produced
            match sys.cfg.targets.iter().find(|p| p.output == Some(f)) {
                Some(p) => expected_content(sys, &p.name),
                None => sys.read_file(f).unwrap_or_else(|| "<missing>".into()),
            }
        })
        .collect();
    format!("{}({})", t, ins.join(","))
}

pub fn c06_terminal(sys: &Sys, ctx: &mut Ctx) {
    let cfg = &sys.cfg;
    ctx.count("quiescent states");
    let evs = sys.events_from(0);
    if sys.run_result().is_some() {
        ctx.violation("watch-run-returned", format!("the watch run returned {:?} without a signal", sys.run_result()));
        return;
    }
    let changes = evs.iter().filter(|e| matches!(e, Ev::Change { .. })).count();
    if changes > 0 {
        ctx.count("quiescent states after >=1 change");
    }
    let (stuck_fp, stuck_detail) = describe_stuck(sys);
    for tname in cfg.closure() {
        let t = cfg.spec(&tname);
        match t.kind {
            Kind::B => {
                if let Some(o) = t.output {
                    let want = expected_content(sys, &tname);
                    let have = sys.read_file(o).unwrap_or_else(|| "<missing>".into());
                    if want != have {
                        // classify
                        let h = sys.hist(&tname);
                        let skipped_last = {
                            // last decision: a re-run that did not spawn (the runner skipped) after an invalidation
                            let last_inval = h.iter().rposition(|m| m == "inval" || m.starts_with("Invalidated"));
                            let last_spawn = h.iter().rposition(|m| m == "spawn");
                            matches!((last_inval, last_spawn), (Some(i), Some(s)) if i > s) || (last_inval.is_some() && last_spawn.is_none())
                        };
                        let why = if !stuck_fp.is_empty() {
                            format!("left waiting: {}", stuck_fp)
                        } else if skipped_last {
                            "the re-run triggered by the change was skipped (change absorbed by the recorded state)".to_string()
                        } else {
                            "not re-run after the last relevant change".to_string()
                        };
                        ctx.violation(
                            format!("stale-output-at-quiescence [{}]: {}", cfg.name, why),
                            format!("{}: {} contains {:?} but its current inputs require {:?}\n{}\nhistory of {}: {:?}\n{}", cfg.name, cfg.files[o], have, want, why, tname, h, stuck_detail),
                        );
                    }
                }
            }
            Kind::S => {
                let ch: Vec<_> = sys.children().into_iter().filter(|c| c.target == tname).collect();
                let live: Vec<_> = ch.iter().filter(|c| c.status.is_none()).collect();
                if live.len() != 1 {
                    ctx.violation(format!("service-instances-at-quiescence [{}]: {}", cfg.name, live.len()), format!("{} live instances of service {} at quiescence {}", live.len(), tname, stuck_detail));
                    continue;
                }
                let snap = sys.spawn_inputs.get(&live[0].idx).cloned().unwrap_or_default();
                let cur: Vec<(usize, String)> = sys.effective_inputs(&tname).into_iter().map(|f| (f, sys.read_file(f).unwrap_or_else(|| "<missing>".into()))).collect();
                let cur_expected: Vec<(usize, String)> = sys.effective_inputs(&tname).into_iter().map(|f| (f, match cfg.targets.iter().find(|p| p.output == Some(f)) { Some(p) => expected_content(sys, &p.name), None => sys.read_file(f).unwrap_or_else(|| "<missing>".into()) })).collect();
                if snap != cur || cur != cur_expected {
                    ctx.violation(format!("service-not-restarted-after-last-change [{}]", cfg.name), format!("service {} was started with inputs {:?}; current {:?}; required {:?}\nhistory: {:?}", tname, snap, cur, cur_expected, sys.hist(&tname)));
                }
            }
            Kind::A => {}
        }
    }
    for tname in cfg.closure() {
        let t = cfg.spec(&tname);
        if t.kind != Kind::B || !sys.effective_inputs(&tname).is_empty() {
            continue;
        }
        let last_spawn = evs.iter().rposition(|e| matches!(e, Ev::Spawn { t: x, .. } if x == &tname));
        for d in cfg.deps_star(&tname) {
            if cfg.spec(&d).kind != Kind::B {
                continue;
            }
            let last_ok = evs.iter().rposition(|e| matches!(e, Ev::Finish { t: x, code: 0, .. } if x == &d));
            ctx.count("no-input dependents checked against their dependencies' last re-run");
            if let Some(f) = last_ok {
                if last_spawn.map(|s| s < f).unwrap_or(true) {
                    ctx.violation(format!("dependent-not-re-run-after-its-dependency [{}]", cfg.name), format!("{} declares no input (it can never be skipped) and depends on {}, whose last successful run ended after {}'s last start: {} was not re-run after its dependency\nhistory of {}: {:?}", tname, d, tname, tname, tname, sys.hist(&tname)));
                }
            }
        }
    }
    if !stuck_fp.is_empty() && changes == 0 {
        ctx.violation(format!("first-build-incomplete [{}]: {}", cfg.name, stuck_fp), stuck_detail);
    }
}

pub fn c06_step(sys: &Sys, ev0: usize, ctx: &mut Ctx) {
    for e in sys.events_from(ev0) {
        match e {
            Ev::Change { .. } => {
                ctx.count("changes");
                let ch = sys.children();
                if ch.iter().any(|c| c.status.is_none() && !c.service) {
                    ctx.count("changes while a build is running");
                }
            }
            Ev::Notify { delivered: false, .. } => ctx.count("notifications dropped on a full slot"),
            Ev::Point { .. } => ctx.count("parked at an armed point"),
            _ => {}
        }
    }
}

pub fn check_c06(rep: &mut Report) {
    crate::seq_watch::watch_startup(rep);
    let mk = std_checks(c06_step, c06_terminal);
    let dl = deadline(rep, 150, 1800);
    let out = sweep(c06_cfgs(rep.thorough()), &mk, dl, 2_000_000);
    fill_report(rep, &out, "watch mode, real incremental runner on real files, virtual watcher: every schedule x every placement of the changes");
    finalize(rep);
    rep.assumptions.push("script effect: reads its inputs when it starts, writes its output when it ends".into());
    rep.assumptions.push("which targets a file belongs to is decided by the reference predicate checked against the real watcher in C16".into());
}

// ---------------------------------------------------------------------------------------
// termination / failure while the incremental run is outside its script phase (C10, C05)

/// configurations with the real incremental runner, every named point armed, a signal at every state
pub fn phase_cfgs(thorough: bool) -> Vec<Cfg> {
    use zinoma::verif::points::*;
    let all_points = |t: &str| -> Vec<(String, u8)> { [DECIDED, DELETED, SCRIPT_DONE, STATE_COMPUTED, SAVED].iter().map(|p| (t.to_string(), *p)).collect() };
    let mk = |name: &str, files: &[&str], targets: Vec<TSpec>, roots: &[&str]| {
        let mut c = cfg(name, targets, roots);
        c.files = files.iter().map(|s| s.to_string()).collect();
        c.real_incremental = true;
        c
    };
    let mut v = vec![];
    // (1) one build, one-shot, signal anywhere
    let mut c = mk("phases: one build, signal at every state", &["in_t.txt", "out_t.txt"], vec![rf("t", Kind::B, &[], &[0], &[], Some(1))], &["t"]);
    c.armed = all_points("t");
    c.sigterm = true;
    c.freeze_after_exit_begins = true;
    v.push(c);
    // (2) failure exit path: a sibling fails while t is somewhere in its cycle
    let mut c = mk("phases: one build + a failing sibling", &["in_t.txt", "out_t.txt", "in_bad.txt", "out_bad.txt"], vec![t("all", Kind::A, &["t", "bad"]), rf("t", Kind::B, &[], &[0], &[], Some(1)), rf("bad", Kind::B, &[], &[2], &[], Some(3))], &["all"]);
    c.armed = all_points("t");
    c.must_fail = vec!["bad".into()];
    c.freeze_after_exit_begins = true;
    v.push(c);
    // (3) watch mode, one change, signal anywhere
    let mut c = mk("phases: one build, watch, one change, signal at every state", &["in_t.txt", "out_t.txt"], vec![rf("t", Kind::B, &[], &[0], &[], Some(1))], &["t"]);
    c.watch = true;
    c.change_budget = 1;
    c.armed = if thorough { all_points("t") } else { vec![("t".into(), SCRIPT_DONE), ("t".into(), STATE_COMPUTED)] };
    c.sigterm = true;
    c.freeze_after_exit_begins = true;
    v.push(c);
    // (4) dependent builds: signal while the second decides / records
    if thorough {
        let mut c = mk("phases: producer->consumer, signal at every state", &["in_p.txt", "out_p.txt", "in_c.txt", "out_c.txt"], vec![rf("c", Kind::B, &[], &[2], &["p"], Some(3)), rf("p", Kind::B, &[], &[0], &[], Some(1))], &["c"]);
        c.armed = vec![("c".into(), DECIDED), ("c".into(), SCRIPT_DONE), ("p".into(), SCRIPT_DONE)];
        c.sigterm = true;
        c.freeze_after_exit_begins = true;
        v.push(c);
    }
    v
}

/// C05 (signal part): a record exists and decodes only if the target's last cycle ran its script to a zero exit
pub fn c05_step(sys: &Sys, _ev0: usize, ctx: &mut Ctx) {
    let cfg = &sys.cfg;
    if !cfg.real_incremental {
        return;
    }
    let dir = match &sys.scratch {
        Some(d) => d.clone(),
        None => return,
    };
    for t in cfg.targets.iter().filter(|t| t.kind == Kind::B) {
        let rec = dir.join(".zinoma").join(format!("{}.checksums", t.name));
        if !rec.is_file() {
            continue;
        }
        ctx.count("states with a record on disk");
        let last = sys.children().into_iter().filter(|c| c.target == t.name).last();
        let fine = matches!(last, Some(ref c) if c.status == Some(0) && !c.killed);
        if !fine {
            let how = match last {
                None => "no script ever ran".to_string(),
                Some(c) => format!("last script status {:?}, killed {}", c.status, c.killed),
            };
            ctx.violation(format!("record-on-disk-although-last-cycle-did-not-succeed: {}", if how.contains("killed true") { "script was cancelled" } else { "script failed or never ran" }), format!("{}: {} exists but {}\nhistory: {:?}", cfg.name, rec.display(), how, sys.hist(&t.name)));
        }
    }
}

/// `prompt_exit`: also apply C10's terminal oracle (C10's own run); C05 only looks at the record
pub fn check_phases(rep: &mut Report, label: &str, prompt_exit: bool) {
    let mk = move |_: &Cfg| Checks {
        step: Box::new(move |s, e, c| {
            if prompt_exit {
                c10_step(s, e, c);
            }
            c05_step(s, e, c)
        }),
        terminal: Box::new(move |s, c| {
            if prompt_exit {
                c10_terminal(s, c);
            }
            observation(s)
        }),
    };
    let dl = deadline(rep, 150, 1800);
    let out = sweep(phase_cfgs(rep.thorough()), &mk, dl, 2_000_000);
    fill_report(rep, &out, label);
}

/// C03 (the converse of `c05_step`, at the end of a run): a build whose last script ended with status 0 without
/// being cancelled has its record on disk when zinoma has exited — also when a signal or a sibling's failure
/// arrived while the state was being computed or written (the next invocation then skips it)
pub fn c03_terminal(sys: &Sys, ctx: &mut Ctx) {
    let cfg = &sys.cfg;
    if !cfg.real_incremental || cfg.change_budget > 0 || !sys.main_done() {
        return;
    }
    let dir = match &sys.scratch {
        Some(d) => d.clone(),
        None => return,
    };
    for t in cfg.targets.iter().filter(|t| t.kind == Kind::B && t.has_input) {
        let last = sys.children().into_iter().filter(|c| c.target == t.name).last();
        if !matches!(last, Some(ref c) if c.status == Some(0) && !c.killed) {
            continue;
        }
        ctx.count("exits after a script that ended with status 0");
        let rec = dir.join(".zinoma").join(format!("{}.checksums", t.name));
        let len = std::fs::metadata(&rec).map(|m| m.len()).unwrap_or(0);
        if len == 0 {
            let signalled = sys.events_from(0).iter().any(|e| matches!(e, Ev::Sigterm));
            ctx.violation(format!("no-record-although-the-script-succeeded: {}", if signalled { "signal while the state was computed or written" } else { "a sibling failed meanwhile" }), format!("{}: the script of {} ended with status 0 and was not cancelled, zinoma has exited, yet {} is missing or empty: the next invocation runs the script again on an untouched tree\nhistory: {:?}", cfg.name, t.name, rec.display(), sys.hist(&t.name)));
        }
    }
}

/// C04 where a script ends by a signal of its own (killed from outside, crashed): every script has ended, so the
/// one-shot run ends
pub fn check_c04_signal_deaths(rep: &mut Report) {
    let mk = move |_: &Cfg| Checks {
        step: Box::new(noop_step),
        terminal: Box::new(move |s, c| {
            if failures(&s.events_from(0)).is_empty() {
                c04_terminal(s, c);
            } else {
                c.count("terminal states after a script died of a signal");
                if !s.main_done() {
                    let (fp, detail) = describe_stuck(s);
                    c.violation(format!("one-shot run never ends after a script died of a signal: {}", fp), format!("{}{}", detail, observation(s)));
                }
            }
            observation(s)
        }),
    };
    let dl = deadline(rep, 150, 1800);
    let mut v = vec![];
    for c in small_cfgs(if rep.thorough() { 3 } else { 2 }, 2).into_iter().filter(distinct_roots) {
        if builds(&c).is_empty() {
            continue;
        }
        let mut f = c.clone();
        f.may_fail = builds(&c);
        f.fail_by_signal = true;
        v.push(f);
    }
    let out = sweep(v, &mk, dl, 3_000_000);
    fill_report(rep, &out, "one-shot, reduced: graphs <=2 targets (3 thorough), every build may be killed by a signal of its own");
    finalize(rep);
}

/// C04 on the phase configurations: a one-shot invocation ends, whatever the moment of the build cycle at which a
/// sibling's failure (or a signal) reaches a target
pub fn check_phases_c04(rep: &mut Report) {
    let mk = move |_: &Cfg| Checks {
        step: Box::new(noop_step),
        terminal: Box::new(move |s, c| {
            if !s.cfg.watch {
                c.count("terminal states of one-shot phase configurations");
                if !s.main_done() {
                    let (fp, detail) = describe_stuck(s);
                    c.violation(format!("one-shot run never ends (termination met a build outside its script phase): {}", fp), format!("{}\n{}{}", s.cfg.name, detail, observation(s)));
                }
            }
            observation(s)
        }),
    };
    let dl = deadline(rep, 150, 1800);
    let out = sweep(phase_cfgs(rep.thorough()).into_iter().filter(|c| !c.watch).collect(), &mk, dl, 2_000_000);
    fill_report(rep, &out, "real incremental runner, every phase of the build cycle a parking point: the run ends after a sibling's failure or a signal at every state");
    finalize(rep);
}

pub fn check_phases_c03(rep: &mut Report) {
    let mk = move |_: &Cfg| Checks { step: Box::new(c05_step), terminal: Box::new(move |s, c| { c03_terminal(s, c); observation(s) }) };
    let dl = deadline(rep, 150, 1800);
    let out = sweep(phase_cfgs(rep.thorough()).into_iter().filter(|c| c.change_budget == 0).collect(), &mk, dl, 2_000_000);
    fill_report(rep, &out, "real incremental runner, every phase of the build cycle a parking point: after a signal or a sibling's failure, a script that succeeded is on record");
    finalize(rep);
}

/// DESIGN §3.4 self-check: on small configurations the reduced mode (eager relay) and the exact mode
/// (relay as an action, real capacity) must give the same set of terminal observations; a difference is a
/// machinery error (the reduction argument would be wrong), never a verdict about zinoma.
pub fn selfcheck_reduced_vs_exact(rep: &mut Report) {
    let mk = |_: &Cfg| Checks { step: Box::new(noop_step), terminal: Box::new(|s, _| observation(s)) };
    let mut base: Vec<Cfg> = small_cfgs(2, 2).into_iter().filter(distinct_roots).collect();
    if rep.thorough() {
        base.extend(shape_cfgs(3, 1).into_iter().step_by(4));
    }
    let mut with_fail = vec![];
    for c in &base {
        let mut f = c.clone();
        f.may_fail = builds(c);
        with_fail.push(f);
    }
    let exact: Vec<Cfg> = with_fail.iter().map(|c| { let mut e = c.clone(); e.exact = true; e.cap = None; e }).collect();
    let dl = deadline(rep, 100, 900);
    let a = sweep(with_fail, &mk, dl, 2_000_000);
    let b = sweep(exact, &mk, dl, 2_000_000);
    let mut compared = 0u64;
    for ((ca, sa), (_cb, sb)) in a.per.iter().zip(b.per.iter()) {
        if sa.capped || sb.capped {
            continue;
        }
        compared += 1;
        let oa: BTreeSet<&String> = sa.observations.keys().collect();
        let ob: BTreeSet<&String> = sb.observations.keys().collect();
        if oa != ob {
            rep.machinery_errors.push(format!("reduced and exact mode disagree on {}: only reduced {:?}; only exact {:?}", ca.short(), oa.difference(&ob).collect::<Vec<_>>(), ob.difference(&oa).collect::<Vec<_>>()));
        }
    }
    rep.set("selfcheck_reduced_vs_exact", json!({"configurations_compared": compared, "reduced_states": a.total.states, "exact_states": b.total.states, "result": "identical sets of terminal observations"}));
}
