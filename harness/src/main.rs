mod binbind;
mod binbox;
mod e1;
mod explore;
mod graphs;
mod report;
mod seq_crash;
mod seq_fs;
mod seq_inc;
mod seq_resolve;
mod seq_watch;
mod seq_yaml;
mod sequtil;
mod sys;
mod world;

use report::Report;

fn usage() -> ! {
    eprintln!("usage: zv check <C01..C20> [--tier quick|thorough] | zv replay <file> | zv explore <named> ");
    std::process::exit(2)
}

fn main() {
    let args: Vec<String> = std::env::args().collect();
    if args.len() < 3 {
        usage();
    }
    // a panic anywhere in the machinery is a machinery error (exit 2), never a verdict
    let code = match args[1].as_str() {
        "check" => run_check(&args[2]),
        "replay" => replay_file(&args[2]),
        "bench" => bench(&args[2]),
        "worker" => worker(&args[2..]),
        "bind" => {
            let mut rep = Report::new("BIND", "model_checking");
            match args[2].as_str() {
                "C01" => binbind::bind_c01(&mut rep),
                "C03" => binbind::bind_c03(&mut rep),
                "C04" => binbind::bind_c04(&mut rep),
                "C06" => binbind::bind_c06(&mut rep),
                "C13" => binbind::bind_c13(&mut rep),
                "C19" => binbind::bind_c19(&mut rep),
                "C07" => binbind::bind_c07(&mut rep),
                "C08" => binbind::bind_c08(&mut rep),
                "C09" => binbind::bind_c09(&mut rep),
                "C10" => binbind::bind_c10(&mut rep),
                "C11" => binbind::bind_c11(&mut rep),
                "C14" => binbind::bind_c14(&mut rep),
                "C17" => binbind::bind_c17(&mut rep),
                _ => binbind::bind_c20(&mut rep),
            }
            for v in &rep.violations {
                println!("VIOLATION {} :: {}", v.fingerprint, v.detail);
            }
            println!("{}", serde_json::to_string(&rep.coverage).unwrap());
            0
        }
        "explore" => explore_named(&args[2..]),
        "phases" => {
            use explore::*;
            for c in e1::phase_cfgs(false).into_iter().chain(e1::c06_cfgs(false)) {
                let cfg = std::sync::Arc::new(c.clone());
                let ch = Checks { step: Box::new(e1::noop_step), terminal: Box::new(|s, _| e1::observation(s)) };
                let th: usize = args[2].parse().unwrap_or(16);
                let st = explore(&cfg, &ch, &Opts { threads: th, ..Default::default() });
                println!("{:70} states={} trans={} execs={} terminals={} obs={}", c.name, st.states, st.transitions, st.executions, st.terminals, st.observations.len());
                if args.len() > 3 {
                    for (o, n) in &st.observations {
                        println!("      {} x{}", o, n);
                    }
                    println!("      actions {:?}", st.action_counts);
                }
            }
            0
        }
        _ => usage(),
    };
    let _ = std::fs::remove_dir_all(explore::scratch_root());
    std::process::exit(code)
}

/// run one part of a check; a panic inside it is a machinery error of that part, the other parts still run
fn part(rep: &mut Report, name: &str, f: impl FnOnce(&mut Report)) {
    let r = std::panic::catch_unwind(std::panic::AssertUnwindSafe(|| f(rep)));
    if r.is_err() {
        rep.machinery_errors.push(format!("part '{}' panicked (see above)", name));
    }
}

fn run_check(id: &str) -> i32 {
    // watchdog: a check never hangs; running out of wall time is a machinery error, never a verdict
    let limit = if report::tier() == "thorough" { 4 * 3600 } else { 20 * 60 };
    std::thread::spawn(move || {
        std::thread::sleep(std::time::Duration::from_secs(limit));
        eprintln!("MACHINERY-ERROR: watchdog: the check did not finish within {} s", limit);
        std::process::exit(2);
    });
    let r = std::panic::catch_unwind(|| match id {
        "C01" | "C04" | "C06" | "C07" | "C08" | "C10" | "C11" | "C17" | "C20" => {
            let mut rep = Report::new(id, "model_checking");
            match id {
                "C01" => {
                    part(&mut rep, "exploration", e1::check_c01);
                    part(&mut rep, "binary scenarios", binbind::bind_c01)
                }
                "C04" => {
                    part(&mut rep, "exploration", e1::check_c04);
                    part(&mut rep, "phase exploration", e1::check_phases_c04);
                    part(&mut rep, "signal deaths", e1::check_c04_signal_deaths);
                    part(&mut rep, "binary scenarios", binbind::bind_c04)
                }
                "C06" => {
                    part(&mut rep, "exploration", e1::check_c06);
                    part(&mut rep, "binary scenarios", binbind::bind_c06)
                }
                "C07" => {
                    part(&mut rep, "exploration", e1::check_c07);
                    part(&mut rep, "binary scenarios", binbind::bind_c07)
                }
                "C08" => {
                    part(&mut rep, "exploration", e1::check_c08);
                    part(&mut rep, "binary scenarios", binbind::bind_c08)
                }
                "C10" => {
                    part(&mut rep, "exploration", e1::check_c10);
                    part(&mut rep, "binary scenarios", binbind::bind_c10)
                }
                "C11" => {
                    part(&mut rep, "exploration", e1::check_c11);
                    part(&mut rep, "binary scenarios", binbind::bind_c11)
                }
                "C17" => {
                    part(&mut rep, "exploration", e1::check_c17);
                    part(&mut rep, "binary scenarios", binbind::bind_c17)
                }
                _ => {
                    part(&mut rep, "exploration", e1::check_c20);
                    part(&mut rep, "binary scenarios", binbind::bind_c20)
                }
            }
            rep.finish()
        }
        "C12" | "C18" => {
            let mut rep = Report::new(id, "model_checking");
            if id == "C12" {
                binbox::check_c12(&mut rep)
            } else {
                binbox::check_c18(&mut rep)
            }
            rep.finish()
        }
        "C05" => {
            let mut rep = Report::new(id, "fault_enumeration");
            seq_crash::check_c05(&mut rep);
            rep.finish()
        }
        "C02" | "C03" | "C13" => {
            let mut rep = Report::new(id, "model_checking");
            match id {
                "C02" => seq_inc::check_c02(&mut rep),
                "C03" => {
                    seq_inc::check_c03(&mut rep);
                    part(&mut rep, "phase exploration", e1::check_phases_c03);
                    binbind::bind_c03(&mut rep)
                }
                _ => {
                    seq_inc::check_c13(&mut rep);
                    binbind::bind_c13(&mut rep)
                }
            }
            rep.finish()
        }
        "C09" | "C14" | "C15" | "C16" | "C19" => {
            let mut rep = Report::new(id, "model_checking");
            match id {
                "C14" => {
                    seq_yaml::check_c14(&mut rep);
                    binbind::bind_c14(&mut rep)
                }
                "C16" => seq_watch::check_c16(&mut rep),
                "C09" => {
                    seq_resolve::check_c09(&mut rep);
                    binbind::bind_c09(&mut rep)
                }
                "C15" => seq_fs::check_c15(&mut rep),
                _ => {
                    seq_resolve::check_c19(&mut rep);
                    binbind::bind_c19(&mut rep)
                }
            }
            rep.finish()
        }
        _ => {
            eprintln!("unknown property {}", id);
            2
        }
    });
    match r {
        Ok(c) => c,
        Err(_) => {
            eprintln!("MACHINERY-ERROR: panic in the checker (see above)");
            2
        }
    }
}

fn replay_file(path: &str) -> i32 {
    let text = std::fs::read_to_string(path).expect("read replay file");
    let v: serde_json::Value = serde_json::from_str(&text).expect("parse replay file");
    let rp = &v["replay"];
    match rp["engine"].as_str() {
        Some("actorcheck") => {
            let cfg: sys::Cfg = serde_json::from_value(rp["cfg"].clone()).expect("cfg");
            let actions: Vec<sys::Action> = serde_json::from_value(rp["actions"].clone()).expect("actions");
            println!("property: {}", v["property"]);
            println!("fingerprint: {}", v["fingerprint"]);
            println!("configuration: {}", cfg.short());
            let cfg = std::sync::Arc::new(cfg);
            let scratch = if cfg.real_incremental { Some(explore::scratch_root().join("replay")) } else { None };
            match explore::replay(&cfg, &actions, scratch.clone()) {
                Ok((ev1, sys1)) => {
                    for (i, a) in actions.iter().enumerate() {
                        println!("  step {:3}: {:?}", i, a);
                    }
                    println!("events:");
                    for e in &ev1 {
                        println!("  {:?}", e);
                    }
                    println!("enabled at the end: {:?}", sys1.enabled());
                    println!("observation: {}", e1::observation(&sys1));
                    drop(sys1);
                    let (ev2, _s2) = explore::replay(&cfg, &actions, scratch).expect("second replay");
                    if ev1 != ev2 {
                        println!("REPLAY DIVERGED between two runs (machinery error)");
                        return 2;
                    }
                    println!("replayed twice with identical observations");
                    0
                }
                Err(e) => {
                    println!("replay failed: {}", e);
                    2
                }
            }
        }
        other => {
            println!("replay for engine {:?}: {}", other, serde_json::to_string_pretty(rp).unwrap());
            0
        }
    }
}

fn bench(which: &str) -> i32 {
    use graphs::*;
    use sys::Kind::*;
    let c = cfg("bench", vec![t("a", B, &["b", "c"]), t("b", B, &["c"]), t("c", B, &[])], &["a", "b"]);
    let cfg = std::sync::Arc::new(c);
    let n = 20000;
    let t0 = std::time::Instant::now();
    match which {
        "inc" => {
            let l = seq_inc::layouts().into_iter().find(|l| l.name == "directory").unwrap();
            let t1 = std::time::Instant::now();
            let o = seq_inc::run_histories(&l, &seq_inc::ops_for(&l), 1, usize::MAX, seq_inc::Oracle::SkipOnlyWhenAllowed, "bench");
            println!("histories={} invocations={} in {:?}", o.histories, o.invocations, t1.elapsed());
            let root = sequtil::scratch("benchm");
            let t2 = std::time::Instant::now();
            for i in 0..100 { let r = root.join(format!("m{}", i)); std::fs::create_dir_all(&r).unwrap(); let _ = seq_inc::materialise(&l, &r); }
            println!("materialise: {:?} each", t2.elapsed() / 100);
            let r = root.join("x"); std::fs::create_dir_all(&r).unwrap();
            let mut sc = seq_inc::materialise(&l, &r);
            let t3 = std::time::Instant::now();
            for _ in 0..100 { let _ = seq_inc::invoke(&mut sc, &l); }
            println!("invoke: {:?} each", t3.elapsed() / 100);
            let t5 = std::time::Instant::now();
            for i in 0..50 { sequtil::write(&r.join("src/a.txt"), format!("v{}", i).as_bytes()); sequtil::set_mtime(&r.join("src/a.txt"), 1_800_000_000 + i); let _ = seq_inc::invoke(&mut sc, &l); }
            println!("invoke(executing): {:?} each", t5.elapsed() / 50);
            let t6 = std::time::Instant::now();
            for i in 0..50 { let d = sequtil::scratch(&format!("bb{}", i)); let _ = std::fs::remove_dir_all(&d); }
            println!("scratch+remove: {:?} each", t6.elapsed() / 50);
            let t4 = std::time::Instant::now();
            for _ in 0..100 { let _ = seq_inc::take_snap(&sc.input, &sc.output); }
            println!("take_snap: {:?} each", t4.elapsed() / 100);
        }
        "new" => {
            for _ in 0..n {
                let s = sys::Sys::new(cfg.clone(), None);
                drop(s);
            }
        }
        "run" => {
            for _ in 0..n {
                let mut s = sys::Sys::new(cfg.clone(), None);
                loop {
                    let en = s.enabled();
                    if en.is_empty() { break; }
                    s.apply(&en[0]);
                }
            }
        }
        "runkey" => {
            for _ in 0..n {
                let mut s = sys::Sys::new(cfg.clone(), None);
                loop {
                    let en = s.enabled();
                    if en.is_empty() { break; }
                    s.apply(&en[0]);
                    let _ = s.key();
                }
            }
        }
        _ => {}
    }
    println!("{}: {:?} per iteration", which, t0.elapsed() / n);
    0
}

fn explore_named(args: &[String]) -> i32 {
    use explore::*;
    let mut all = graphs::named4();
    all.extend(graphs::named5());
    let mk = |_: &sys::Cfg| Checks { step: Box::new(e1::noop_step), terminal: Box::new(|s, c| { e1::c04_terminal(s, c); e1::observation(s) }) };
    for c in all {
        if args[0] != "all" && c.name != args[0] {
            continue;
        }
        let mut c = c;
        for a in &args[1..] {
            match a.as_str() {
                "exact" => { c.exact = true; c.cap = Some(2); }
                "coarse" => c.coarse = true,
                "desc" => c.desc_order = true,
                "sigterm" => c.sigterm = true,
                _ => {}
            }
        }
        let cfg = std::sync::Arc::new(c.clone());
        let opts = Opts { threads: 16, max_states: 20_000_000, deadline: Some(std::time::Instant::now() + std::time::Duration::from_secs(600)), ..Default::default() };
        let st = explore(&cfg, &mk(&c), &opts);
        println!("{:28} states={:9} trans={:9} execs={:9} terminals={:7} obs={} depth={} capped={} findings={} wall={:.1}s", c.name, st.states, st.transitions, st.executions, st.terminals, st.observations.len(), st.max_depth, st.capped, st.findings.len(), st.wall_s);
        for f in st.findings.values() { println!("   finding: {}", f.fingerprint); }
    }
    0
}

fn worker(args: &[String]) -> i32 {
    let kind = args[0].as_str();
    let thorough = args[1] == "thorough";
    let start: usize = args[2].parse().unwrap();
    let end: usize = args[3].parse().unwrap();
    match kind {
        "c05" => seq_crash::worker(thorough, start, end),
        "c09" => seq_resolve::worker(thorough, start, end),
        "c14" => seq_yaml::worker(thorough, start, end),
        "c16" => seq_watch::worker(thorough, start, end),
        _ => return 2,
    }
    0
}
