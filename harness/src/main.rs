mod e1;
mod explore;
mod graphs;
mod report;
mod sys;
mod world;

use report::Report;

fn usage() -> ! {
    eprintln!("usage: zv check <C01..C20> [--tier quick|thorough] | zv replay <file> | zv explore <named> ");
    std::process::exit(2)
}

fn main() {
    let args: Vec<String> = std::env::args().collect();
    if args.len() < 3 {
        usage();
    }
    // a panic anywhere in the machinery is a machinery error (exit 2), never a verdict
    let code = match args[1].as_str() {
        "check" => run_check(&args[2]),
        "replay" => replay_file(&args[2]),
        "bench" => bench(&args[2]),
        "explore" => explore_named(&args[2..]),
        _ => usage(),
    };
    let _ = std::fs::remove_dir_all(explore::scratch_root());
    std::process::exit(code)
}

fn run_check(id: &str) -> i32 {
    let r = std::panic::catch_unwind(|| match id {
        "C01" | "C04" | "C07" | "C08" | "C10" | "C11" | "C17" | "C20" => {
            let mut rep = Report::new(id, "model_checking");
            match id {
                "C01" => e1::check_c01(&mut rep),
                "C04" => e1::check_c04(&mut rep),
                "C07" => e1::check_c07(&mut rep),
                "C08" => e1::check_c08(&mut rep),
                "C10" => e1::check_c10(&mut rep),
                "C11" => e1::check_c11(&mut rep),
                "C17" => e1::check_c17(&mut rep),
                _ => e1::check_c20(&mut rep),
            }
            rep.finish()
        }
        _ => {
            eprintln!("unknown property {}", id);
            2
        }
    });
    match r {
        Ok(c) => c,
        Err(_) => {
            eprintln!("MACHINERY-ERROR: panic in the checker (see above)");
            2
        }
    }
}

fn replay_file(path: &str) -> i32 {
    let text = std::fs::read_to_string(path).expect("read replay file");
    let v: serde_json::Value = serde_json::from_str(&text).expect("parse replay file");
    let rp = &v["replay"];
    match rp["engine"].as_str() {
        Some("actorcheck") => {
            let cfg: sys::Cfg = serde_json::from_value(rp["cfg"].clone()).expect("cfg");
            let actions: Vec<sys::Action> = serde_json::from_value(rp["actions"].clone()).expect("actions");
            println!("property: {}", v["property"]);
            println!("fingerprint: {}", v["fingerprint"]);
            println!("configuration: {}", cfg.short());
            let cfg = std::sync::Arc::new(cfg);
            let scratch = if cfg.real_incremental { Some(explore::scratch_root().join("replay")) } else { None };
            match explore::replay(&cfg, &actions, scratch.clone()) {
                Ok((ev1, sys1)) => {
                    for (i, a) in actions.iter().enumerate() {
                        println!("  step {:3}: {:?}", i, a);
                    }
                    println!("events:");
                    for e in &ev1 {
                        println!("  {:?}", e);
                    }
                    println!("enabled at the end: {:?}", sys1.enabled());
                    println!("observation: {}", e1::observation(&sys1));
                    drop(sys1);
                    let (ev2, _s2) = explore::replay(&cfg, &actions, scratch).expect("second replay");
                    if ev1 != ev2 {
                        println!("REPLAY DIVERGED between two runs (machinery error)");
                        return 2;
                    }
                    println!("replayed twice with identical observations");
                    0
                }
                Err(e) => {
                    println!("replay failed: {}", e);
                    2
                }
            }
        }
        other => {
            println!("replay for engine {:?}: {}", other, serde_json::to_string_pretty(rp).unwrap());
            0
        }
    }
}

fn bench(which: &str) -> i32 {
    use graphs::*;
    use sys::Kind::*;
    let c = cfg("bench", vec![t("a", B, &["b", "c"]), t("b", B, &["c"]), t("c", B, &[])], &["a", "b"]);
    let cfg = std::sync::Arc::new(c);
    let n = 20000;
    let t0 = std::time::Instant::now();
    match which {
        "new" => {
            for _ in 0..n {
                let s = sys::Sys::new(cfg.clone(), None);
                drop(s);
            }
        }
        "run" => {
            for _ in 0..n {
                let mut s = sys::Sys::new(cfg.clone(), None);
                loop {
                    let en = s.enabled();
                    if en.is_empty() { break; }
                    s.apply(&en[0]);
                }
            }
        }
        "runkey" => {
            for _ in 0..n {
                let mut s = sys::Sys::new(cfg.clone(), None);
                loop {
                    let en = s.enabled();
                    if en.is_empty() { break; }
                    s.apply(&en[0]);
                    let _ = s.key();
                }
            }
        }
        _ => {}
    }
    println!("{}: {:?} per iteration", which, t0.elapsed() / n);
    0
}

fn explore_named(args: &[String]) -> i32 {
    use explore::*;
    let mut all = graphs::named4();
    all.extend(graphs::named5());
    let mk = |_: &sys::Cfg| Checks { step: Box::new(e1::noop_step), terminal: Box::new(|s, c| { e1::c04_terminal(s, c); e1::observation(s) }) };
    for c in all {
        if args[0] != "all" && c.name != args[0] {
            continue;
        }
        let mut c = c;
        for a in &args[1..] {
            match a.as_str() {
                "exact" => { c.exact = true; c.cap = Some(2); }
                "coarse" => c.coarse = true,
                "desc" => c.desc_order = true,
                "sigterm" => c.sigterm = true,
                _ => {}
            }
        }
        let cfg = std::sync::Arc::new(c.clone());
        let opts = Opts { threads: 16, max_states: 20_000_000, deadline: Some(std::time::Instant::now() + std::time::Duration::from_secs(600)), ..Default::default() };
        let st = explore(&cfg, &mk(&c), &opts);
        println!("{:28} states={:9} trans={:9} execs={:9} terminals={:7} obs={} depth={} capped={} findings={} wall={:.1}s", c.name, st.states, st.transitions, st.executions, st.terminals, st.observations.len(), st.max_depth, st.capped, st.findings.len(), st.wall_s);
        for f in st.findings.values() { println!("   finding: {}", f.fingerprint); }
    }
    0
}
