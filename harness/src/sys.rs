//! One instance of the real zinoma engine, closed by the harness, stepped action by action.
use crate::world::*;
use async_std::channel::{self, Receiver, Sender};
use serde::{Deserialize, Serialize};
use std::collections::{BTreeMap, BTreeSet, HashMap, VecDeque};
use std::future::Future;
use std::hash::{Hash, Hasher};
use std::pin::Pin;
use std::sync::atomic::{AtomicBool, Ordering};
use std::sync::{Arc, Mutex};
use std::task::{Context, Wake, Waker};
use zinoma::verif::{self, Slot, World};
use zinoma::verif_api::domain::*;
use zinoma::verif_api::engine::{self, *};
use zinoma::verif_api::TerminationMessage;

#[derive(Clone, Copy, Debug, PartialEq, Eq, Hash, PartialOrd, Ord, Serialize, Deserialize)]
pub enum Kind {
    B,
    S,
    A,
}

#[derive(Clone, Debug, PartialEq, Eq, Hash, Serialize, Deserialize)]
pub struct TSpec {
    pub name: String,
    pub kind: Kind,
    pub deps: Vec<String>,
    /// bypass/watch mode: the target declares an input (may receive notifications)
    #[serde(default)]
    pub has_input: bool,
    /// real-file mode: indices (into Cfg::files) of the target's own input files
    #[serde(default)]
    pub inputs: Vec<usize>,
    /// real-file mode: producers whose outputs are inherited (`X.output`); also dependencies
    #[serde(default)]
    pub from: Vec<String>,
    /// real-file mode: the build writes this file (index into Cfg::files)
    #[serde(default)]
    pub output: Option<usize>,
}

#[derive(Clone, Debug, Default, PartialEq, Eq, Hash, Serialize, Deserialize)]
pub struct Cfg {
    pub name: String,
    pub targets: Vec<TSpec>,
    pub roots: Vec<String>,
    #[serde(default)]
    pub watch: bool,
    /// exact mode: the relay is an explorer action and the queues have capacity `cap`
    #[serde(default)]
    pub exact: bool,
    #[serde(default)]
    pub cap: Option<usize>,
    /// targets whose script may exit non-zero (both outcomes are explored)
    #[serde(default)]
    pub may_fail: Vec<String>,
    /// targets whose script always exits non-zero
    #[serde(default)]
    pub must_fail: Vec<String>,
    #[serde(default)]
    pub launch_fail: Vec<String>,
    #[serde(default)]
    pub sigterm: bool,
    /// bypass watch mode: number of file notifications the environment may produce
    #[serde(default)]
    pub notify_budget: u32,
    /// real-file mode: number of input rewrites the environment may perform
    #[serde(default)]
    pub change_budget: u32,
    /// files that may be changed by the environment (indices); empty = all input files
    #[serde(default)]
    pub changeable: Vec<usize>,
    #[serde(default)]
    pub real_incremental: bool,
    #[serde(default)]
    pub files: Vec<String>,
    #[serde(default)]
    pub armed: Vec<(String, u8)>,
    #[serde(default)]
    pub desc_order: bool,
    #[serde(default)]
    pub coarse: bool,
    /// restricted system: the scripts of these targets never end by themselves
    #[serde(default)]
    pub no_finish: Vec<String>,
    /// restricted system: once the signal arrived or the run returned an error no script ends by itself
    #[serde(default)]
    pub freeze_after_exit_begins: bool,
    /// a failing script dies of a signal instead of exiting with a non-zero code
    #[serde(default)]
    pub fail_by_signal: bool,
}

impl Cfg {
    pub fn spec(&self, name: &str) -> &TSpec {
        self.targets.iter().find(|t| t.name == name).unwrap_or_else(|| panic!("no target {}", name))
    }
    pub fn short(&self) -> String {
        let ts: Vec<String> = self
            .targets
            .iter()
            .map(|t| {
                let mut d = t.deps.clone();
                d.extend(t.from.iter().map(|f| format!("{}.output", f)));
                format!("{}:{:?}[{}]", t.name, t.kind, d.join(","))
            })
            .collect();
        let mut s = format!("{} roots=[{}]", ts.join(" "), self.roots.join(","));
        if self.watch {
            s += " watch";
        }
        if self.exact {
            s += &format!(" exact cap={:?}", self.cap);
        }
        if !self.may_fail.is_empty() {
            s += &format!(" may_fail={:?}", self.may_fail);
        }
        if !self.must_fail.is_empty() {
            s += &format!(" must_fail={:?}", self.must_fail);
        }
        if !self.launch_fail.is_empty() {
            s += &format!(" launch_fail={:?}", self.launch_fail);
        }
        if self.sigterm {
            s += " sigterm";
        }
        if self.notify_budget > 0 {
            s += &format!(" notify_budget={}", self.notify_budget);
        }
        if self.change_budget > 0 {
            s += &format!(" change_budget={}", self.change_budget);
        }
        if self.desc_order {
            s += " desc_order";
        }
        if self.coarse {
            s += " coarse";
        }
        if !self.no_finish.is_empty() {
            s += &format!(" no_finish={:?}", self.no_finish);
        }
        if self.freeze_after_exit_begins {
            s += " freeze_after_exit_begins";
        }
        if !self.armed.is_empty() {
            s += &format!(" armed={:?}", self.armed);
        }
        if self.fail_by_signal {
            s += " fail_by_signal";
        }
        if self.real_incremental {
            s += " real_incremental";
        }
        s
    }
    /// transitive dependencies of `name` (through deps and `from`), excluding itself
    pub fn deps_star(&self, name: &str) -> BTreeSet<String> {
        let mut out = BTreeSet::new();
        let mut stack = vec![name.to_string()];
        while let Some(n) = stack.pop() {
            let s = self.spec(&n);
            for d in s.deps.iter().chain(s.from.iter()) {
                if out.insert(d.clone()) {
                    stack.push(d.clone());
                }
            }
        }
        out
    }
    pub fn direct_deps(&self, name: &str) -> Vec<String> {
        let s = self.spec(name);
        let mut v = s.deps.clone();
        v.extend(s.from.iter().cloned());
        v
    }
    pub fn closure(&self) -> BTreeSet<String> {
        let mut out = BTreeSet::new();
        for r in &self.roots {
            out.insert(r.clone());
            out.extend(self.deps_star(r));
        }
        out
    }
    /// services reachable from the roots through aggregates only (these keep zinoma alive)
    pub fn root_services(&self) -> BTreeSet<String> {
        let mut out = BTreeSet::new();
        let mut stack: Vec<String> = self.roots.clone();
        let mut seen = BTreeSet::new();
        while let Some(n) = stack.pop() {
            if !seen.insert(n.clone()) {
                continue;
            }
            let s = self.spec(&n);
            match s.kind {
                Kind::S => {
                    out.insert(n.clone());
                }
                Kind::A => stack.extend(s.deps.iter().cloned()),
                Kind::B => {}
            }
        }
        out
    }
}

#[derive(Clone, Debug, PartialEq, Eq, Hash, PartialOrd, Ord, Serialize, Deserialize)]
pub enum Action {
    Relay,
    Recv(String),
    Send(String),
    Finish(String, i32),
    Term(String),
    Inval(String),
    Sigterm,
    RelayTerm,
    Notify(String),
    Change(usize),
    NotifyFile(usize, String),
    Release(String, u8),
}

struct TaskWaker {
    woken: AtomicBool,
    thread: std::thread::Thread,
}
impl Wake for TaskWaker {
    fn wake(self: Arc<Self>) {
        self.woken.store(true, Ordering::SeqCst);
        self.thread.unpark();
    }
}
struct Task {
    name: String,
    fut: Option<Pin<Box<dyn Future<Output = ()>>>>,
    waker: Arc<TaskWaker>,
    done_gate: Option<Arc<Gate>>,
}

pub struct Shared {
    pub run_result: Option<Result<(), String>>,
    pub main_done: bool,
}

pub struct Sys {
    pub cfg: Arc<Cfg>,
    pub w: Arc<W>,
    tasks: Vec<Task>,
    q_rx: Receiver<TargetActorOutputMessage>,
    stage_tx: Sender<TargetActorOutputMessage>,
    term_tx: Sender<TerminationMessage>,
    pub shared: Arc<Mutex<Shared>>,
    /// messages handed to the relay and not yet consumed by their destination, per destination
    pub inbox_log: BTreeMap<String, VecDeque<String>>,
    /// what the relay consumed for itself (Root messages, errors)
    pub relay_root_hist: Vec<String>,
    pub sig_arrived: bool,
    pub sig_moved: bool,
    pub notify_left: u32,
    pub change_left: u32,
    pub file_version: Vec<u32>,
    /// pending notifications (file written, watcher not told yet): (file, target)
    pub pending_notifs: BTreeSet<(usize, String)>,
    /// per child: contents of the input files when it was spawned
    pub spawn_inputs: BTreeMap<usize, Vec<(usize, String)>>,
    /// per target: the input files that existed when its watching began (only those are watched, as with
    /// the real watcher, which skips paths that do not exist yet)
    pub watched: BTreeMap<String, BTreeSet<usize>>,
    pub scratch: Option<std::path::PathBuf>,
    pub polls: u64,
    /// number of events logged when the system was last message-quiescent (nothing queued, nothing in flight)
    pub quiescent_at: usize,
    /// the value of `quiescent_at` when the action being applied began
    pub quiescent_before: usize,
    /// true: a failing script is killed by a signal instead of exiting non-zero
    snapshotted_spawns: usize,
    pub applied: Vec<Action>,
}

pub fn tid(name: &str) -> TargetId {
    match name.split_once("::") {
        Some((p, t)) => TargetId { project_name: Some(p.to_string()), target_name: t.to_string() },
        None => TargetId { project_name: None, target_name: name.to_string() },
    }
}

fn build_targets(cfg: &Cfg, scratch: &Option<std::path::PathBuf>) -> HashMap<TargetId, Target> {
    let dir: async_std::path::PathBuf = match scratch {
        Some(p) => p.clone().into(),
        None => "/dev/shm".into(),
    };
    let file_res = |idx: &[usize]| -> Resources {
        if idx.is_empty() {
            return Resources::new();
        }
        Resources {
            files: vec![FilesResource {
                paths: idx.iter().map(|&i| dir.join(&cfg.files[i])).collect(),
                extensions: None,
            }],
            cmds: vec![],
        }
    };
    let mut m = HashMap::new();
    for t in &cfg.targets {
        let mut deps: Vec<TargetId> = t.deps.iter().map(|d| tid(d)).collect();
        deps.extend(t.from.iter().map(|d| tid(d)));
        let metadata = TargetMetadata { id: tid(&t.name), project_dir: dir.clone(), dependencies: deps };
        // effective input: own files then producers' outputs (as the resolver does)
        let mut input = file_res(&t.inputs);
        for p in &t.from {
            if let Some(o) = cfg.spec(p).output {
                input.extend(&file_res(&[o]));
            }
        }
        let target = match t.kind {
            Kind::B => Target::Build(BuildTarget {
                metadata,
                build_script: ":".into(),
                input,
                output: t.output.map(|o| file_res(&[o])).unwrap_or_else(Resources::new),
            }),
            Kind::S => Target::Service(ServiceTarget { metadata, run_script: ":".into(), input }),
            Kind::A => Target::Aggregate(AggregateTarget { metadata }),
        };
        m.insert(tid(&t.name), target);
    }
    m
}

impl Sys {
    pub fn new(cfg: Arc<Cfg>, scratch: Option<std::path::PathBuf>) -> Sys {
        let knobs = Knobs {
            inbox_cap: if cfg.exact { cfg.cap } else { None },
            bypass: !cfg.real_incremental,
            virtual_watch: true,
            virtual_procs: true,
            launch_fail: cfg.launch_fail.iter().cloned().collect(),
            armed: cfg.armed.iter().cloned().collect(),
            write_limit: BTreeMap::new(),
            desc_order: cfg.desc_order,
            coarse: cfg.coarse,
        };
        let w = W::new(knobs);
        verif::install(Some(w.clone() as Arc<dyn World>));
        let wo = if cfg.watch { WatchOption::Enabled } else { WatchOption::Disabled };
        let qcap = match (cfg.exact, cfg.cap) {
            (true, Some(c)) => c,
            _ => zinoma::verif_api::DEFAULT_CHANNEL_CAP,
        };
        let (q_tx, q_rx) = channel::bounded(qcap);
        let (stage_tx, stage_rx) = channel::bounded(1);
        let (term_tx, term_rx) = channel::bounded::<TerminationMessage>(1);
        if cfg.real_incremental {
            let dir = scratch.as_ref().expect("real_incremental needs a scratch dir");
            let _ = std::fs::remove_dir_all(dir);
            std::fs::create_dir_all(dir).unwrap();
        }
        let targets = build_targets(&cfg, &scratch);
        let roots: Vec<TargetId> = cfg.roots.iter().map(|r| tid(r)).collect();
        let shared = Arc::new(Mutex::new(Shared { run_result: None, main_done: false }));
        let sh = shared.clone();
        let q_rx_close = q_rx.clone();
        let q_closed = w.q_closed.clone();
        let inner = w.inner.clone();
        // The ten lines of main.rs that wire the engine (bound to the real main by binbox runs).
        let main = async move {
            let mut tas = TargetActors::new(targets, q_tx, wo);
            let r = engine::run(roots, wo, &mut tas, term_rx, stage_rx).await;
            // In main.rs `run` owns the only receiver of the output queue: returning drops it.
            q_closed.store(true, Ordering::SeqCst);
            q_rx_close.close();
            let r = r.map_err(|e| format!("{:#}", e));
            inner.lock().unwrap().events.push(Ev::RunReturned { result: r.clone() });
            sh.lock().unwrap().run_result = Some(r);
            tas.terminate().await;
            inner.lock().unwrap().events.push(Ev::MainDone);
            sh.lock().unwrap().main_done = true;
        };
        let mut inbox_log: BTreeMap<String, VecDeque<String>> = BTreeMap::new();
        for r in &cfg.roots {
            let l = inbox_log.entry(r.clone()).or_default();
            l.push_back("Requested { kind: Build, requester: Root }".into());
            l.push_back("Requested { kind: Service, requester: Root }".into());
        }
        let nfiles = cfg.files.len();
        let mut s = Sys {
            notify_left: cfg.notify_budget,
            change_left: cfg.change_budget,
            cfg,
            w,
            tasks: vec![],
            q_rx,
            stage_tx,
            term_tx,
            shared,
            inbox_log,
            relay_root_hist: vec![],
            sig_arrived: false,
            sig_moved: false,
            file_version: vec![0; nfiles],
            pending_notifs: BTreeSet::new(),
            spawn_inputs: BTreeMap::new(),
            watched: BTreeMap::new(),
            scratch,
            polls: 0,
            quiescent_at: 0,
            quiescent_before: 0,
            snapshotted_spawns: 0,
            applied: vec![],
        };
        if s.cfg.real_incremental {
            // initial contents of the environment-owned input files
            let owned: Vec<usize> = s.env_files();
            for f in owned {
                s.write_file(f, &format!("{}#0", s.cfg.files[f]));
            }
        }
        s.add_task("main".into(), Box::pin(main), None);
        s.settle();
        s.post_action();
        s
    }

    /// files that are inputs of some target and outputs of none
    pub fn env_files(&self) -> Vec<usize> {
        let outs: BTreeSet<usize> = self.cfg.targets.iter().filter_map(|t| t.output).collect();
        let mut v: BTreeSet<usize> = BTreeSet::new();
        for t in &self.cfg.targets {
            for &i in &t.inputs {
                if !outs.contains(&i) {
                    v.insert(i);
                }
            }
        }
        v.into_iter().collect()
    }

    pub fn file_path(&self, f: usize) -> std::path::PathBuf {
        self.scratch.as_ref().unwrap().join(&self.cfg.files[f])
    }
    pub fn read_file(&self, f: usize) -> Option<String> {
        std::fs::read_to_string(self.file_path(f)).ok()
    }
    fn write_file(&mut self, f: usize, content: &str) {
        let p = self.file_path(f);
        std::fs::write(&p, content).unwrap();
        // explicit, strictly increasing mtimes (N8): one second per version
        self.file_version[f] += 1;
        let total: u32 = self.file_version.iter().sum();
        let t = libc::timespec { tv_sec: 1_600_000_000 + total as i64, tv_nsec: 0 };
        let times = [t, t];
        let c = std::ffi::CString::new(p.to_str().unwrap()).unwrap();
        unsafe {
            libc::utimensat(libc::AT_FDCWD, c.as_ptr(), times.as_ptr(), 0);
        }
    }

    fn add_task(&mut self, name: String, fut: Pin<Box<dyn Future<Output = ()>>>, done_gate: Option<Arc<Gate>>) {
        let waker = Arc::new(TaskWaker { woken: AtomicBool::new(true), thread: std::thread::current() });
        self.tasks.push(Task { name, fut: Some(fut), waker, done_gate });
    }

    fn task_alive(&self, name: &str) -> bool {
        self.tasks.iter().any(|t| t.name == name && t.fut.is_some())
    }

    fn child_waiting(i: &Inner, a: &str) -> bool {
        W::last_child_of(i, a)
            .map(|c| {
                let c = c.lock().unwrap();
                c.info.status.is_none() && c.waker.is_some()
            })
            .unwrap_or(false)
    }

    /// run woken tasks until nothing is woken and no internal I/O is outstanding
    fn settle(&mut self) {
        let mut waited = 0u32;
        loop {
            let mut progressed = false;
            let new: Vec<_> = std::mem::take(&mut self.w.inner.lock().unwrap().new_tasks);
            for (name, fut, done) in new {
                self.add_task(name, fut, Some(done));
                progressed = true;
            }
            for i in 0..self.tasks.len() {
                if self.tasks[i].fut.is_some() && self.tasks[i].waker.woken.swap(false, Ordering::SeqCst) {
                    let waker = Waker::from(self.tasks[i].waker.clone());
                    let mut cx = Context::from_waker(&waker);
                    self.polls += 1;
                    let done = self.tasks[i].fut.as_mut().unwrap().as_mut().poll(&mut cx).is_ready();
                    if done {
                        self.tasks[i].fut = None;
                        let name = self.tasks[i].name.clone();
                        if name != "main" {
                            // the actor dropped its receivers: mirror that on the harness-held ends
                            let mut inner = self.w.inner.lock().unwrap();
                            inner.pumps.retain(|(a, _), _| a != &name);
                            inner.notifiers.remove(&name);
                            inner.events.push(Ev::ActorDone { t: name });
                        }
                        if let Some(g) = self.tasks[i].done_gate.take() {
                            g.open();
                        }
                    }
                    progressed = true;
                }
            }
            if progressed {
                waited = 0;
                continue;
            }
            // internal I/O only exists when the real incremental runner is in use; in scheduling-only runs a
            // build future that is pending on anything but its child is *waiting for something else*
            // (e.g. a lock another build holds) and the exploration simply goes on
            let internal = self.cfg.real_incremental && {
                let i = self.w.inner.lock().unwrap();
                i.busy.iter().any(|a| {
                    self.task_alive(a)
                        && !i.send_gate.contains_key(a)
                        && !i.sending.contains(a)
                        && !i.at_point.contains_key(a)
                        && !Self::child_waiting(&i, a)
                })
            };
            let joining = {
                let sh = self.shared.lock().unwrap();
                sh.run_result.is_some() && !sh.main_done && self.tasks.iter().skip(1).all(|t| t.fut.is_none())
            };
            if internal || joining {
                std::thread::park_timeout(std::time::Duration::from_millis(100));
                waited += 1;
                if waited > 300 {
                    panic!("MACHINERY: internal wait did not end within 30 s (internal={}, joining={}) cfg={}", internal, joining, self.cfg.short());
                }
                continue;
            }
            break;
        }
    }

    pub fn selecting(&self, i: &Inner, a: &str) -> bool {
        self.task_alive(a)
            && !i.send_gate.contains_key(a)
            && !i.sending.contains(a)
            && (!self.cfg.real_incremental || !i.busy.contains(a) || i.at_point.contains_key(a) || Self::child_waiting(i, a))
    }

    fn run_returned(&self) -> bool {
        self.shared.lock().unwrap().run_result.is_some()
    }
    pub fn main_done(&self) -> bool {
        self.shared.lock().unwrap().main_done
    }
    pub fn run_result(&self) -> Option<Result<(), String>> {
        self.shared.lock().unwrap().run_result.clone()
    }

    fn relay_ok(&self) -> bool {
        // only an idle relay takes the next message: while it is parked forwarding the previous one into a
        // full inbox the message stays in the queue (handing it over early would leave two select! branches
        // ready at once when the relay comes back: uncontrolled choice, see N2)
        !self.run_returned() && !self.q_rx.is_closed() && self.q_rx.len() > 0 && self.stage_tx.is_empty() && self.term_tx.is_empty() && self.relay_parked_in_forward().is_none()
    }

    fn exit_began(&self) -> bool {
        self.sig_arrived || matches!(self.run_result(), Some(Err(_)))
    }

    pub fn enabled(&self) -> Vec<Action> {
        let relay_ok = self.cfg.exact && self.relay_ok(); // (takes the world lock itself)
        let i = self.w.inner.lock().unwrap();
        let mut v = vec![];
        if relay_ok {
            v.push(Action::Relay);
        }
        for ((a, slot), p) in i.pumps.iter() {
            if (p.len)() > 0 && self.selecting(&i, a) {
                match slot {
                    Slot::Inbox => v.push(Action::Recv(a.clone())),
                    Slot::Termination => v.push(Action::Term(a.clone())),
                    Slot::Invalidation => v.push(Action::Inval(a.clone())),
                }
            }
        }
        for a in i.send_gate.keys() {
            v.push(Action::Send(a.clone()));
        }
        let frozen = self.cfg.freeze_after_exit_begins && self.exit_began();
        if !frozen {
            let mut seen = BTreeSet::new();
            for c in i.children.iter().rev() {
                let c = c.lock().unwrap();
                let t = c.info.target.clone();
                if !seen.insert(t.clone()) {
                    continue;
                }
                if c.info.service || c.info.status.is_some() || self.cfg.no_finish.contains(&t) {
                    continue;
                }
                drop(c);
                if self.selecting(&i, &t) {
                    if self.cfg.must_fail.contains(&t) {
                        v.push(Action::Finish(t, 1));
                    } else {
                        v.push(Action::Finish(t.clone(), 0));
                        if self.cfg.may_fail.contains(&t) {
                            v.push(Action::Finish(t, 1));
                        }
                    }
                }
            }
        }
        for (a, (p, _)) in i.at_point.iter() {
            v.push(Action::Release(a.clone(), *p));
        }
        if self.cfg.sigterm && !self.sig_arrived && !self.run_returned() {
            v.push(Action::Sigterm);
        }
        if self.cfg.exact && self.sig_arrived && !self.sig_moved && !self.run_returned() {
            v.push(Action::RelayTerm);
        }
        if self.notify_left > 0 && !self.exit_began() {
            for a in i.notifiers.keys() {
                if self.cfg.spec(a).has_input {
                    v.push(Action::Notify(a.clone()));
                }
            }
        }
        if self.change_left > 0 && !self.exit_began() {
            let files = if self.cfg.changeable.is_empty() { self.env_files() } else { self.cfg.changeable.clone() };
            for f in files {
                v.push(Action::Change(f));
            }
        }
        for (f, t) in self.pending_notifs.iter() {
            v.push(Action::NotifyFile(*f, t.clone()));
        }
        v.sort();
        v
    }

    fn pump(&mut self, a: &str, slot: Slot) {
        let mut i = self.w.inner.lock().unwrap();
        let d = (i.pumps.get_mut(&(a.to_string(), slot)).expect("pump").pump)().expect("pump: empty");
        if slot == Slot::Inbox {
            let exp = self.inbox_log.get_mut(a).and_then(|l| l.pop_front());
            assert_eq!(exp.as_deref(), Some(d.as_str()), "MACHINERY: inbox bookkeeping diverged for {}", a);
        }
        i.push_hist(&a.to_string(), d.clone());
        i.events.push(Ev::Consume { t: a.to_string(), slot, desc: d });
    }

    fn relay_one(&mut self) {
        let m = self.q_rx.try_recv().expect("relay: queue empty");
        {
            let mut i = self.w.inner.lock().unwrap();
            i.q_senders.pop_front();
            match &m {
                TargetActorOutputMessage::MessageActor { dest: ActorId::Target(id), msg } => {
                    let d = format!("{:?}", msg);
                    self.inbox_log.entry(id.to_string()).or_default().push_back(d.clone());
                    i.events.push(Ev::Relayed { dest: id.to_string(), desc: d });
                }
                TargetActorOutputMessage::MessageActor { dest: ActorId::Root, msg } => {
                    let d = format!("{:?}", msg);
                    self.relay_root_hist.push(d.clone());
                    i.events.push(Ev::Relayed { dest: "<root>".into(), desc: d });
                }
                TargetActorOutputMessage::TargetExecutionError(id, e) => {
                    let d = format!("Error({}, {:#})", id, e);
                    self.relay_root_hist.push(d.clone());
                    i.events.push(Ev::Relayed { dest: "<root>".into(), desc: d });
                }
            }
        }
        self.stage_tx.try_send(m).ok().expect("relay: stage full");
    }

    /// targets (launched, with a notifier) whose effective input contains file f
    fn watchers_of(&self, f: usize) -> Vec<String> {
        let i = self.w.inner.lock().unwrap();
        let mut v = vec![];
        for t in &self.cfg.targets {
            if !i.notifiers.contains_key(&t.name) {
                continue;
            }
            let mut denotes = t.inputs.contains(&f);
            for p in &t.from {
                if self.cfg.spec(p).output == Some(f) {
                    denotes = true;
                }
            }
            if denotes && self.watched.get(&t.name).map(|w| w.contains(&f)).unwrap_or(false) {
                v.push(t.name.clone());
            }
        }
        v
    }

    pub fn apply(&mut self, act: &Action) {
        self.applied.push(act.clone());
        self.quiescent_before = self.quiescent_at;
        match act {
            Action::Relay => self.relay_one(),
            Action::Recv(a) => self.pump(a, Slot::Inbox),
            Action::Term(a) => self.pump(a, Slot::Termination),
            Action::Inval(a) => self.pump(a, Slot::Invalidation),
            Action::Send(a) => {
                let mut i = self.w.inner.lock().unwrap();
                let g = i.send_gate.remove(a).expect("send gate");
                i.sending.insert(a.clone());
                i.push_hist(&a.clone(), "send".into());
                i.events.push(Ev::SendGranted { t: a.clone() });
                drop(i);
                g.open();
            }
            Action::Finish(a, code) => {
                let c = {
                    let i = self.w.inner.lock().unwrap();
                    W::last_child_of(&i, a).expect("finish: no child")
                };
                let idx = c.lock().unwrap().info.idx;
                if *code == 0 && self.cfg.real_incremental {
                    // script effect: read-at-start, write-at-end
                    if let Some(o) = self.cfg.spec(a).output {
                        let snap = self.spawn_inputs.get(&idx).cloned().unwrap_or_default();
                        let content = format!("{}({})", a, snap.iter().map(|(_, c)| c.clone()).collect::<Vec<_>>().join(","));
                        self.write_file(o, &content);
                        for t in self.watchers_of(o) {
                            self.pending_notifs.insert((o, t));
                        }
                        self.w.inner.lock().unwrap().events.push(Ev::Effect { t: a.clone(), wrote: content });
                    }
                }
                let mut i = self.w.inner.lock().unwrap();
                let mut cs = c.lock().unwrap();
                assert!(cs.info.status.is_none());
                cs.info.status = Some(if *code != 0 && self.cfg.fail_by_signal { 9 } else { code << 8 });
                if let Some(w) = cs.waker.take() {
                    w.wake()
                }
                drop(cs);
                i.push_hist(&a.clone(), format!("finish{}", code));
                i.events.push(Ev::Finish { t: a.clone(), child: idx, code: *code });
            }
            Action::Release(a, p) => {
                let mut i = self.w.inner.lock().unwrap();
                let (pp, g) = i.at_point.remove(a).expect("release: not at point");
                assert_eq!(pp, *p);
                i.push_hist(&a.clone(), format!("release{}", p));
                i.events.push(Ev::Release { t: a.clone(), p: *p });
                drop(i);
                g.open();
            }
            Action::Sigterm => {
                self.sig_arrived = true;
                self.w.inner.lock().unwrap().events.push(Ev::Sigterm);
                if !self.cfg.exact {
                    self.sig_moved = true;
                    self.term_tx.try_send(TerminationMessage).ok().expect("signal slot full");
                    self.w.inner.lock().unwrap().events.push(Ev::SigtermConsumed);
                }
            }
            Action::RelayTerm => {
                self.sig_moved = true;
                self.term_tx.try_send(TerminationMessage).ok().expect("signal slot full");
                self.w.inner.lock().unwrap().events.push(Ev::SigtermConsumed);
            }
            Action::Notify(a) => {
                self.notify_left -= 1;
                let mut i = self.w.inner.lock().unwrap();
                let delivered = (i.notifiers.get(a).expect("notifier"))();
                i.events.push(Ev::Notify { t: a.clone(), delivered, file: None });
            }
            Action::Change(f) => {
                self.change_left -= 1;
                let v = self.file_version[*f] ;
                let content = format!("{}#{}", self.cfg.files[*f], v);
                self.write_file(*f, &content);
                for t in self.watchers_of(*f) {
                    self.pending_notifs.insert((*f, t));
                }
                self.w.inner.lock().unwrap().events.push(Ev::Change { file: *f, version: self.file_version[*f] });
            }
            Action::NotifyFile(f, t) => {
                self.pending_notifs.remove(&(*f, t.clone()));
                let mut i = self.w.inner.lock().unwrap();
                let delivered = match i.notifiers.get(t) {
                    Some(n) => n(),
                    None => false,
                };
                i.events.push(Ev::Notify { t: t.clone(), delivered, file: Some(*f) });
            }
        }
        self.settle();
        if !self.cfg.exact {
            while self.relay_ok() {
                self.relay_one();
                self.settle();
            }
        }
        self.post_action();
    }

    fn post_action(&mut self) {
        // snapshot the inputs of children spawned by this step (nothing else ran in between)
        if self.cfg.real_incremental {
            let spawned: Vec<(usize, String)> = {
                let i = self.w.inner.lock().unwrap();
                i.children[self.snapshotted_spawns..].iter().map(|c| { let c = c.lock().unwrap(); (c.info.idx, c.info.target.clone()) }).collect()
            };
            for (idx, t) in spawned {
                let snap = self.effective_inputs(&t).into_iter().map(|f| (f, self.read_file(f).unwrap_or_else(|| "<missing>".into()))).collect();
                self.spawn_inputs.insert(idx, snap);
            }
        }
        self.snapshotted_spawns = self.w.inner.lock().unwrap().children.len();
        if self.cfg.real_incremental {
            let registered: Vec<String> = self.w.inner.lock().unwrap().notifiers.keys().cloned().collect();
            for t in registered {
                if !self.watched.contains_key(&t) {
                    let existing: BTreeSet<usize> = self.effective_inputs(&t).into_iter().filter(|f| self.file_path(*f).exists()).collect();
                    self.watched.insert(t, existing);
                }
            }
        }
        if self.message_quiescent() {
            self.quiescent_at = self.events_len();
        }
    }

    /// nothing queued anywhere, nobody inside a handler
    pub fn message_quiescent(&self) -> bool {
        let i = self.w.inner.lock().unwrap();
        self.q_rx.len() == 0 && self.stage_tx.is_empty() && i.send_gate.is_empty() && i.sending.is_empty() && self.pending_notifs.is_empty() && i.pumps.values().all(|p| (p.len)() == 0)
    }

    pub fn effective_inputs(&self, t: &str) -> Vec<usize> {
        let s = self.cfg.spec(t);
        let mut v = s.inputs.clone();
        for p in &s.from {
            if let Some(o) = self.cfg.spec(p).output {
                v.push(o);
            }
        }
        v
    }

    pub fn children(&self) -> Vec<ChildInfo> {
        self.w.inner.lock().unwrap().children.iter().map(|c| c.lock().unwrap().info.clone()).collect()
    }
    pub fn events_len(&self) -> usize {
        self.w.inner.lock().unwrap().events.len()
    }
    pub fn events_from(&self, from: usize) -> Vec<Ev> {
        self.w.inner.lock().unwrap().events[from..].to_vec()
    }
    pub fn hist(&self, a: &str) -> Vec<String> {
        self.w.inner.lock().unwrap().hist.get(a).cloned().unwrap_or_default()
    }
    pub fn all_hist(&self) -> BTreeMap<String, Vec<String>> {
        self.w.inner.lock().unwrap().hist.clone()
    }
    pub fn q_len(&self) -> usize {
        self.q_rx.len()
    }
    pub fn stage_full(&self) -> bool {
        !self.stage_tx.is_empty()
    }
    pub fn inbox_len(&self, a: &str) -> Option<usize> {
        let i = self.w.inner.lock().unwrap();
        i.pumps.get(&(a.to_string(), Slot::Inbox)).map(|p| (p.len)())
    }
    /// the relay handed a message over that did not enter its destination's inbox yet
    pub fn relay_parked_in_forward(&self) -> Option<String> {
        let i = self.w.inner.lock().unwrap();
        for (a, l) in &self.inbox_log {
            if let Some(p) = i.pumps.get(&(a.clone(), Slot::Inbox)) {
                if (p.len)() < l.len() {
                    return Some(a.clone());
                }
            }
        }
        None
    }
    pub fn blocked_senders(&self) -> Vec<String> {
        self.w.inner.lock().unwrap().sending.iter().cloned().collect()
    }
    pub fn alive_actors(&self) -> Vec<String> {
        self.tasks.iter().skip(1).filter(|t| t.fut.is_some()).map(|t| t.name.clone()).collect()
    }
    pub fn launched(&self) -> Vec<String> {
        self.tasks.iter().skip(1).map(|t| t.name.clone()).collect()
    }

    /// exact state identity: equal keys imply equal futures (see DESIGN §3.5)
    pub fn key(&self) -> u128 {
        let i = self.w.inner.lock().unwrap();
        let sh = self.shared.lock().unwrap();
        let mut s = String::with_capacity(512);
        use std::fmt::Write;
        write!(s, "{:?}|", i.hist_hash).unwrap();
        write!(s, "{:?}|{:?}|", i.q_senders, self.inbox_log).unwrap();
        let lens: Vec<(String, u8, usize)> = i.pumps.iter().map(|((a, sl), p)| (a.clone(), *sl as u8, (p.len)())).collect();
        write!(s, "{:?}|", lens).unwrap();
        write!(s, "{:?}|{}|{}|{}|", self.relay_root_hist, self.stage_tx.len(), self.sig_arrived, self.sig_moved).unwrap();
        write!(s, "{:?}|{}|", sh.run_result, sh.main_done).unwrap();
        write!(s, "{:?}|{:?}|{:?}|", i.sending, i.send_gate.keys().collect::<Vec<_>>(), i.at_point.iter().map(|(k, v)| (k.clone(), v.0)).collect::<Vec<_>>()).unwrap();
        for c in &i.children {
            let c = c.lock().unwrap();
            write!(s, "{}:{:?}:{}:{};", c.info.target, c.info.status, c.info.killed, c.info.reaped).unwrap();
        }
        write!(s, "|{}|{}|{:?}|{:?}|{:?}", self.notify_left, self.change_left, self.file_version, self.pending_notifs, self.watched).unwrap();
        // what each script saw when it started: together with the effects this determines the files and the
        // records on disk (the order of a change relative to a start is not part of any actor's history)
        write!(s, "|{:?}", self.spawn_inputs).unwrap();
        let alive: Vec<&str> = self.tasks.iter().filter(|t| t.fut.is_some()).map(|t| t.name.as_str()).collect();
        write!(s, "|{:?}", alive).unwrap();
        // the monitors that speak of "every message had been delivered since X" (C07, C11) compare the last
        // message-quiescent point with events of one actor's own history (a failure, the consumption of an
        // out-of-date notice): how many of those happened since that point is part of the state, so that the
        // verdict on a transition is a function of the state it leaves
        let mut since: Vec<String> = i.events[self.quiescent_at.min(i.events.len())..]
            .iter()
            .filter_map(|e| match e {
                Ev::Consume { t, slot: Slot::Invalidation, .. } => Some(format!("c:{}", t)),
                Ev::Consume { t, slot: Slot::Inbox, desc } if desc.starts_with("Invalidated") => Some(format!("c:{}", t)),
                Ev::Finish { t, code, .. } if *code != 0 => Some(format!("f:{}", t)),
                Ev::SpawnFail { t } => Some(format!("f:{}", t)),
                _ => None,
            })
            .collect();
        since.sort();
        write!(s, "|{:?}", since).unwrap();
        let mut h1 = std::collections::hash_map::DefaultHasher::new();
        s.hash(&mut h1);
        let mut h2 = std::collections::hash_map::DefaultHasher::new();
        0x9e3779b97f4a7c15u64.hash(&mut h2);
        s.hash(&mut h2);
        ((h1.finish() as u128) << 64) | (h2.finish() as u128)
    }

    pub fn key_string(&self) -> String {
        let i = self.w.inner.lock().unwrap();
        format!("{:?} q={:?} inbox={:?}", i.hist, i.q_senders, self.inbox_log)
    }
}

impl Drop for Sys {
    fn drop(&mut self) {
        // drop the live futures first (their guards call back into the world), then release the
        // inert waiters async-std holds, then uninstall the world from this thread.
        let gates: Vec<Arc<Gate>> = self.tasks.iter_mut().filter_map(|t| t.done_gate.take()).collect();
        for t in self.tasks.iter_mut() {
            t.fut = None;
        }
        let pending: Vec<_> = std::mem::take(&mut self.w.inner.lock().unwrap().new_tasks);
        drop(pending);
        for g in gates {
            g.open();
        }
        {
            let mut i = self.w.inner.lock().unwrap();
            i.pumps.clear();
            i.notifiers.clear();
        }
        verif::install(None);
    }
}
