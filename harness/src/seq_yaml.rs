//! C14: configuration is validated strictly, totally and deterministically.
use crate::report::Report;
use crate::sequtil::*;
use serde_json::json;
use std::collections::{BTreeMap, BTreeSet};
use std::path::{Path, PathBuf};
use zinoma::verif_api::{ir, yaml};

#[derive(Clone, Copy, Debug, PartialEq, Eq)]
pub enum Expect {
    Accept,
    Reject,
    DontCare,
}

fn and(a: Expect, b: Expect) -> Expect {
    use Expect::*;
    match (a, b) {
        (Reject, _) | (_, Reject) => Reject,
        (DontCare, _) | (_, DontCare) => DontCare,
        _ => Accept,
    }
}

#[derive(Clone, Debug)]
pub struct Doc {
    pub text: Vec<u8>,
    pub expect: Expect,
    pub why: String,
    /// expected kind of target `t` when accepted ("build" | "service" | "aggregate")
    pub kind_of_t: Option<&'static str>,
}

fn is_valid_name(s: &str) -> Expect {
    if !s.is_ascii() {
        return Expect::DontCare;
    }
    let b = s.as_bytes();
    let word = |c: u8| c.is_ascii_alphanumeric() || c == b'_';
    if !b.is_empty() && word(b[0]) && b.iter().all(|&c| word(c) || c == b'-') {
        Expect::Accept
    } else {
        Expect::Reject
    }
}

/// menus: (yaml fragment, expectation)
fn build_menu() -> Vec<(Option<&'static str>, Expect)> {
    vec![(None, Expect::Accept), (Some("'echo hi'"), Expect::Accept), (Some("[a, b]"), Expect::Reject), (Some("{k: v}"), Expect::Reject)]
}
fn service_menu() -> Vec<(Option<&'static str>, Expect)> {
    vec![(None, Expect::Accept), (Some("'sleep 1'"), Expect::Accept)]
}
fn deps_menu() -> Vec<(Option<&'static str>, Expect)> {
    vec![(None, Expect::Accept), (Some("[]"), Expect::Accept), (Some("[a]"), Expect::Accept), (Some("a"), Expect::Reject), (Some("[[a]]"), Expect::Reject), (Some("{a: b}"), Expect::Reject)]
}
fn input_menu() -> Vec<(Option<&'static str>, Expect)> {
    vec![
        (None, Expect::Accept),
        (Some("[]"), Expect::Accept),
        (Some("[x.output]"), Expect::Accept),
        (Some("[x.out]"), Expect::Reject),
        (Some("['a::b::x.output']"), Expect::Reject),
        (Some("['::x.output']"), Expect::Reject),
        (Some("['x::.output']"), Expect::Reject),
        (Some("['x.output.output']"), Expect::Reject),
        (Some("[{paths: [a]}]"), Expect::Accept),
        (Some("[{paths: [a], extensions: [b]}]"), Expect::Accept),
        (Some("[{cmd_stdout: 'echo c'}]"), Expect::Accept),
        (Some("[{paths: [a], cmd_stdout: c}]"), Expect::Reject),
        (Some("[{bogus: 1}]"), Expect::Reject),
        (Some("[{paths: [a], bogus: 1}]"), Expect::Reject),
        (Some("[42]"), Expect::DontCare),
        (Some("notalist"), Expect::Reject),
        (Some("[{paths: notalist}]"), Expect::Reject),
        (Some("[{extensions: [b]}]"), Expect::Reject),
    ]
}
fn output_menu() -> Vec<(Option<&'static str>, Expect)> {
    vec![(None, Expect::Accept), (Some("[]"), Expect::Accept), (Some("[{paths: [o]}]"), Expect::Accept), (Some("[{cmd_stdout: 'echo c'}]"), Expect::Accept), (Some("[x.output]"), Expect::Reject), (Some("[{bogus: 1}]"), Expect::Reject), (Some("[{paths: [o], extensions: e}]"), Expect::Reject)]
}

const HELPERS: &str = "  a:\n    build: 'true'\n  x:\n    build: 'true'\n    output: [{paths: [xo]}]\n";

fn doc_with(name: Option<&str>, tname: &str, body: &str, extra_top: &str) -> Vec<u8> {
    let mut s = String::new();
    if let Some(n) = name {
        s += &format!("name: {}\n", n);
    }
    s += extra_top;
    s += "targets:\n";
    s += HELPERS;
    s += &format!("  {}:\n{}", tname, body);
    s.into_bytes()
}

pub fn structured_docs() -> Vec<Doc> {
    let mut out = vec![];
    // (1) every combination of target-body keys and value shapes
    for (b, be) in build_menu() {
        for (sv, se) in service_menu() {
            for (d, de) in deps_menu() {
                for (i, ie) in input_menu() {
                    for (o, oe) in output_menu() {
                        for bogus in [false, true] {
                            let mut body = String::new();
                            let mut keys = 0;
                            let mut kv = |k: &str, v: Option<&str>, body: &mut String| {
                                if let Some(v) = v {
                                    *body += &format!("    {}: {}\n", k, v);
                                    keys += 1;
                                }
                            };
                            kv("build", b, &mut body);
                            kv("service", sv, &mut body);
                            kv("dependencies", d, &mut body);
                            kv("input", i, &mut body);
                            kv("output", o, &mut body);
                            if bogus {
                                body += "    bogus: 1\n";
                                keys += 1;
                            }
                            if keys == 0 {
                                body = "    {}\n".into();
                            }
                            // exactly one of build / service / aggregate
                            let (shape, kind): (Expect, Option<&'static str>) = match (b.is_some(), sv.is_some()) {
                                (true, true) => (Expect::Reject, None),
                                (true, false) => (Expect::Accept, Some("build")),
                                (false, true) => (if o.is_some() { Expect::Reject } else { Expect::Accept }, Some("service")),
                                (false, false) => (if d.is_some() && i.is_none() && o.is_none() { Expect::Accept } else { Expect::Reject }, Some("aggregate")),
                            };
                            let mut e = shape;
                            for x in [be, se, de, ie, oe] {
                                e = and(e, x);
                            }
                            if bogus {
                                e = Expect::Reject;
                            }
                            out.push(Doc { text: doc_with(None, "t", &body, ""), expect: e, why: format!("target body {{{}}}", body.lines().map(|l| l.trim()).collect::<Vec<_>>().join("; ")), kind_of_t: if e == Expect::Accept { kind } else { None } });
                        }
                    }
                }
            }
        }
    }
    // (2) project names
    for (n, lit) in [("valid", "valid"), ("a-b", "a-b"), ("_x", "_x"), ("-bad", "'-bad'"), ("", "''"), ("a::b", "'a::b'"), ("ünï", "ünï"), ("with space", "with space"), ("42", "42"), ("~", "~"), (".", "'.'"), ("a/b", "a/b")] {
        let e = match n {
            "42" | "~" => Expect::DontCare,
            _ => is_valid_name(n),
        };
        out.push(Doc { text: doc_with(Some(lit), "t", "    build: 'true'\n", ""), expect: e, why: format!("project name {:?}", n), kind_of_t: None });
    }
    // (3) target names, in an unnamed project and in every named one (an imported project always has a name)
    let tnames = [("t", "t"), ("my-t_2", "my-t_2"), ("007", "'007'"), ("-x", "'-x'"), ("a b", "a b"), ("a::b", "'a::b'"), ("", "''"), ("ünï", "ünï"), ("a.b", "a.b"), ("a/b", "a/b")];
    for (n, lit) in tnames {
        out.push(Doc { text: doc_with(None, lit, "    build: 'true'\n", ""), expect: is_valid_name(n), why: format!("target name {:?}", n), kind_of_t: None });
    }
    for (pn, plit) in [("valid", "valid"), ("a-b", "a-b"), ("_x", "_x"), ("-bad", "'-bad'"), ("a::b", "'a::b'")] {
        for (n, lit) in tnames {
            if n == "t" {
                continue; // (2)
            }
            out.push(Doc { text: doc_with(Some(plit), lit, "    build: 'true'\n", ""), expect: and(is_valid_name(pn), is_valid_name(n)), why: format!("target name {:?} in a project named {:?}", n, pn), kind_of_t: None });
        }
    }
    // (4) top-level shapes
    for (extra, e) in [("bogus: 1\n", Expect::Reject), ("imports: {}\n", Expect::Accept), ("imports: []\n", Expect::DontCare), ("imports: notamap\n", Expect::Reject), ("Targets: {}\n", Expect::Reject), ("version: 2\n", Expect::Reject)] {
        out.push(Doc { text: doc_with(None, "t", "    build: 'true'\n", extra), expect: e, why: format!("top-level {:?}", extra), kind_of_t: None });
    }
    for (text, e) in [("", Expect::DontCare), ("{}", Expect::Accept), ("targets: {}\n", Expect::Accept), ("targets: []\n", Expect::DontCare), ("targets:\n  t: ~\n", Expect::Reject), ("targets:\n  t: []\n", Expect::Reject), ("targets:\n  t: 'string'\n", Expect::Reject), ("- a\n- b\n", Expect::Reject), ("just a string", Expect::Reject), ("targets:\n  t:\n    build: 'true'\n  t:\n    build: 'false'\n", Expect::DontCare), ("name: a\nname: b\n", Expect::DontCare)] {
        out.push(Doc { text: text.as_bytes().to_vec(), expect: e, why: format!("document {:?}", text), kind_of_t: None });
    }
    out
}

pub fn seeds() -> Vec<&'static str> {
    vec![
        "targets:\n  t:\n    build: 'echo hi'\n",
        "name: proj\ntargets:\n  a:\n    dependencies: [b]\n  b:\n    build: \"true\"\n    input: [{paths: [src], extensions: [rs]}]\n    output: [{paths: [out]}]\n",
        "targets:\n  s:\n    service: 'sleep 1'\n    input:\n      - cmd_stdout: 'date'\n      - b.output\n  b:\n    build: |\n      echo multi\n      echo line\n    output:\n      - paths: [o]\n",
        "# comment\ntargets: {t: {build: x, dependencies: []}}\n",
        "name: &n proj\ntargets:\n  t: &t\n    build: 'true'\n  u: *t\n",
        "targets:\n  'quoted-name':\n    build: 'a: b # not a comment'\n    input: [ { paths: [ 'x y', \"z\" ] } ]\n",
    ]
}

pub fn mutated_docs(thorough: bool) -> Vec<Doc> {
    let mut out = vec![];
    let inserts: Vec<&[u8]> = vec![b"\x00", b"\xff", b"\t", b":", b"*", b"&a ", b"!!x ", b"- ", b"{", b"]", b"\n"];
    for (si, seed) in seeds().iter().enumerate() {
        let b = seed.as_bytes();
        for i in 0..b.len() {
            let mut d = b.to_vec();
            d.remove(i);
            out.push(Doc { text: d, expect: Expect::DontCare, why: format!("seed {} with byte {} deleted", si, i), kind_of_t: None });
            out.push(Doc { text: b[..i].to_vec(), expect: Expect::DontCare, why: format!("seed {} truncated to {} bytes", si, i), kind_of_t: None });
        }
        let stride = if thorough { 1 } else { 2 };
        let mut i = 0;
        while i <= b.len() {
            for ins in &inserts {
                let mut d = b[..i].to_vec();
                d.extend_from_slice(ins);
                d.extend_from_slice(&b[i..]);
                out.push(Doc { text: d, expect: Expect::DontCare, why: format!("seed {} with {:?} inserted at {}", si, String::from_utf8_lossy(ins), i), kind_of_t: None });
            }
            i += stride;
        }
    }
    // alias bombs and deep nesting (abort-isolated)
    let mut bomb = String::from("a0: &a0 [x, x, x, x, x, x, x, x, x]\n");
    for i in 1..9 {
        bomb += &format!("a{}: &a{} [*a{}, *a{}, *a{}, *a{}, *a{}, *a{}, *a{}, *a{}, *a{}]\n", i, i, i - 1, i - 1, i - 1, i - 1, i - 1, i - 1, i - 1, i - 1, i - 1);
    }
    bomb += "targets: *a8\n";
    out.push(Doc { text: bomb.into_bytes(), expect: Expect::DontCare, why: "alias bomb (9 levels x 9)".into(), kind_of_t: None });
    for depth in [100usize, 1000, 10000] {
        let s = format!("targets: {}x{}\n", "[".repeat(depth), "]".repeat(depth));
        out.push(Doc { text: s.into_bytes(), expect: Expect::DontCare, why: format!("flow sequences nested {} deep", depth), kind_of_t: None });
        let mut s = String::from("targets:\n");
        for d in 0..depth.min(2000) {
            s += &format!("{}k:\n", " ".repeat(d + 1));
        }
        out.push(Doc { text: s.into_bytes(), expect: Expect::DontCare, why: format!("block mappings nested {} deep", depth.min(2000)), kind_of_t: None });
    }
    out.push(Doc { text: vec![0xff, 0xfe, 0x00, 0x41], expect: Expect::DontCare, why: "not UTF-8".into(), kind_of_t: None });
    out.push(Doc { text: "targets:\n  t:\n    build: 'x'\n".repeat(1).into_bytes().into_iter().chain(std::iter::repeat(b' ').take(100_000)).collect(), expect: Expect::DontCare, why: "100 kB of trailing spaces".into(), kind_of_t: None });
    out
}

// ---------------------------------------------------------------------------------------
// arrangements of importing projects

#[derive(Clone, Debug)]
pub struct Arrangement {
    /// per directory d0..d2: project name
    pub names: Vec<Option<&'static str>>,
    /// per directory: imports (key, target spelling)
    pub imports: Vec<Vec<(&'static str, &'static str)>>,
}

const TARGET_SPELLINGS: [&str; 6] = ["../d0", "../d1", "../d2", "../missing", "../d1/../d1", "."];

fn resolve_spelling(from: usize, s: &str) -> Option<usize> {
    match s {
        "../d0" => Some(0),
        "../d1" | "../d1/../d1" => Some(1),
        "../d2" => Some(2),
        "." => Some(from),
        _ => None,
    }
}

pub fn arrangements(thorough: bool) -> Vec<Arrangement> {
    let names_menu: [Option<&'static str>; 3] = [None, Some("a"), Some("b")];
    // import lists: none, one import, two imports (keys a and b)
    let mut one: Vec<Vec<(&'static str, &'static str)>> = vec![vec![]];
    for k in ["a", "b"] {
        for t in TARGET_SPELLINGS {
            one.push(vec![(k, t)]);
        }
    }
    let mut two = one.clone();
    for t1 in TARGET_SPELLINGS {
        for t2 in TARGET_SPELLINGS {
            two.push(vec![("a", t1), ("b", t2)]);
        }
    }
    let root_lists = &two;
    let other_lists = if thorough { &two } else { &one };
    let mut out = vec![];
    for n0 in names_menu {
        for n1 in names_menu {
            for n2 in names_menu {
                for i0 in root_lists {
                    for i1 in other_lists {
                        for i2 in other_lists.iter().take(if thorough { usize::MAX } else { 7 }) {
                            out.push(Arrangement { names: vec![n0, n1, n2], imports: vec![i0.clone(), i1.clone(), i2.clone()] });
                        }
                    }
                }
            }
        }
    }
    out
}

pub fn expect_arrangement(a: &Arrangement) -> (Expect, String, BTreeSet<usize>) {
    // walk from d0 following imports
    let mut loaded: BTreeSet<usize> = BTreeSet::new();
    let mut stack = vec![0usize];
    let mut must_reject: Option<String> = None;
    let mut cyclic = false;
    let mut on_path: Vec<usize> = vec![];
    fn walk(a: &Arrangement, d: usize, loaded: &mut BTreeSet<usize>, on_path: &mut Vec<usize>, must_reject: &mut Option<String>, cyclic: &mut bool) {
        if on_path.contains(&d) {
            *cyclic = true;
            return;
        }
        if !loaded.insert(d) {
            return;
        }
        on_path.push(d);
        for (key, spelling) in &a.imports[d] {
            match resolve_spelling(d, spelling) {
                None => {
                    must_reject.get_or_insert(format!("d{} imports a missing directory", d));
                }
                Some(t) => {
                    if t == d {
                        *cyclic = true;
                    }
                    match a.names[t] {
                        None => {
                            must_reject.get_or_insert(format!("d{} imports d{} which has no name", d, t));
                        }
                        Some(n) if n != *key => {
                            must_reject.get_or_insert(format!("d{} imports d{} (named {}) under key {}", d, t, n, key));
                        }
                        _ => {}
                    }
                    walk(a, t, loaded, on_path, must_reject, cyclic);
                }
            }
        }
        on_path.pop();
    }
    let _ = &mut stack;
    walk(a, 0, &mut loaded, &mut on_path, &mut must_reject, &mut cyclic);
    if let Some(why) = must_reject {
        return (Expect::Reject, why, loaded);
    }
    // project names unique among the loaded directories
    let mut seen: BTreeMap<Option<&str>, usize> = BTreeMap::new();
    for &d in &loaded {
        if let Some(prev) = seen.insert(a.names[d], d) {
            return (Expect::Reject, format!("d{} and d{} are both named {:?}", prev, d, a.names[d]), loaded);
        }
    }
    if cyclic {
        return (Expect::DontCare, "import cycle or self-import".into(), loaded);
    }
    (Expect::Accept, "acyclic, every import key equals the imported name, names unique".into(), loaded)
}

fn write_arrangement(root: &Path, a: &Arrangement) {
    for d in 0..3 {
        let dir = root.join(format!("d{}", d));
        std::fs::create_dir_all(&dir).unwrap();
        let mut s = String::new();
        if let Some(n) = a.names[d] {
            s += &format!("name: {}\n", n);
        }
        if !a.imports[d].is_empty() {
            s += "imports:\n";
            for (k, t) in &a.imports[d] {
                s += &format!("  {}: {}\n", k, t);
            }
        }
        s += &format!("targets:\n  t{}:\n    build: 'true'\n", d);
        std::fs::write(dir.join("zinoma.yml"), s).unwrap();
    }
}

// ---------------------------------------------------------------------------------------
// evaluation (worker side)

fn load_and_resolve(dir: &Path) -> Result<(BTreeMap<PathBuf, Option<String>>, BTreeMap<String, &'static str>), String> {
    let cfg = yaml::Config::load(dir).map_err(|e| format!("load: {:#}", e))?;
    let names: BTreeMap<PathBuf, Option<String>> = cfg.projects.iter().map(|(d, p)| (d.clone(), p.name.clone())).collect();
    let ir: ir::Config = cfg.into();
    let all = ir.list_all_targets();
    let m = ir.try_into_domain_targets(&all).map_err(|e| format!("resolve: {:#}", e))?;
    let mut kinds = BTreeMap::new();
    for (id, t) in &m {
        let k = match t {
            zinoma::verif_api::domain::Target::Build(_) => "build",
            zinoma::verif_api::domain::Target::Service(_) => "service",
            zinoma::verif_api::domain::Target::Aggregate(_) => "aggregate",
        };
        kinds.insert(id.to_string(), k);
    }
    Ok((names, kinds))
}

pub fn space(thorough: bool) -> (Vec<Doc>, Vec<Arrangement>) {
    let mut docs = structured_docs();
    docs.extend(mutated_docs(thorough));
    (docs, arrangements(thorough))
}

pub fn worker(thorough: bool, start: usize, end: usize) {
    unsafe {
        let lim = libc::rlimit { rlim_cur: 6 << 30, rlim_max: 6 << 30 };
        libc::setrlimit(libc::RLIMIT_AS, &lim);
    }
    let (docs, arrs) = space(thorough);
    let root = scratch(&format!("c14-{}", start));
    for idx in start..end.min(docs.len() + arrs.len()) {
        emit_case(idx);
        let (verdict, detail) = if idx < docs.len() {
            let d = &docs[idx];
            let dir = root.join("doc");
            let _ = std::fs::create_dir_all(&dir);
            std::fs::write(dir.join("zinoma.yml"), &d.text).unwrap();
            let r = std::panic::catch_unwind(|| load_and_resolve(&dir));
            match r {
                Err(_) => ("PANIC".to_string(), format!("{}: the loader panicked", d.why)),
                Ok(res) => match (d.expect, &res) {
                    (Expect::Reject, Ok(_)) => ("ACCEPTED-INVALID".into(), format!("{} was accepted\n{}", d.why, String::from_utf8_lossy(&d.text))),
                    (Expect::Accept, Err(e)) => ("REJECTED-VALID".into(), format!("{} was rejected: {}\n{}", d.why, e, String::from_utf8_lossy(&d.text))),
                    (Expect::Accept, Ok((_, kinds))) => match (d.kind_of_t, kinds.get("t")) {
                        (Some(k), Some(k2)) if k != *k2 => ("WRONG-MEANING".into(), format!("{}: target t means {} but should be {}", d.why, k2, k)),
                        _ => ("OK".into(), "accepted".into()),
                    },
                    (_, Ok(_)) => ("OK".into(), "accepted (don't-care)".into()),
                    (_, Err(_)) => ("OK".into(), "rejected".into()),
                },
            }
        } else {
            let a = &arrs[idx - docs.len()];
            let dir = root.join("arr");
            let _ = std::fs::remove_dir_all(&dir);
            write_arrangement(&dir, a);
            let (exp, why, _loaded) = expect_arrangement(a);
            let r = std::panic::catch_unwind(|| load_and_resolve(&dir.join("d0")));
            match r {
                Err(_) => ("PANIC".to_string(), format!("{:?}: the loader panicked", a)),
                Ok(res) => {
                    // determinism without sampling: accepted => directory -> name injective
                    let inj = match &res {
                        Ok((names, _)) => {
                            let mut seen = BTreeSet::new();
                            names.values().all(|n| seen.insert(n.clone()))
                        }
                        Err(_) => true,
                    };
                    if !inj {
                        ("NAMES-NOT-UNIQUE".into(), format!("accepted although two loaded project directories share a name ({}): the meaning of `name::target` then depends on hash-map iteration order\n{:?}", why, a))
                    } else {
                        match (exp, &res) {
                            (Expect::Reject, Ok(_)) => ("ACCEPTED-INVALID".into(), format!("{} but the arrangement was accepted\n{:?}", why, a)),
                            (Expect::Accept, Err(e)) => ("REJECTED-VALID".into(), format!("{} but the arrangement was rejected: {}\n{:?}", why, e, a)),
                            (_, Ok(_)) => ("OK".into(), "accepted".into()),
                            (_, Err(_)) => ("OK".into(), "rejected".into()),
                        }
                    }
                }
            }
        };
        emit_res(idx, &verdict, &detail);
    }
    let _ = std::fs::remove_dir_all(&root);
    emit_done();
}

pub fn check_c14(rep: &mut Report) {
    let thorough = rep.thorough();
    let (docs, arrs) = space(thorough);
    let total = docs.len() + arrs.len();
    let res = run_isolated("c14", &rep.tier.clone(), total, 16, &[]);
    let mut seen = BTreeSet::new();
    let (mut accepted, mut rejected) = (0u64, 0u64);
    let mut classes: BTreeMap<String, (String, serde_json::Value)> = BTreeMap::new();
    for r in &res {
        if r.verdict == "RANGE-ABANDONED" {
            continue;
        }
        seen.insert(r.idx);
        let what = if r.idx < docs.len() { format!("document #{}: {}", r.idx, docs[r.idx].why.lines().next().unwrap_or("")) } else { format!("arrangement #{}", r.idx - docs.len()) };
        let replay = if r.idx < docs.len() { json!({"engine": "seqcheck", "check": "C14", "document": String::from_utf8_lossy(&docs[r.idx].text), "why": docs[r.idx].why}) } else { json!({"engine": "seqcheck", "check": "C14", "arrangement": format!("{:?}", arrs[r.idx - docs.len()])}) };
        match r.verdict.as_str() {
            "OK" => {
                if r.detail.starts_with("accepted") {
                    accepted += 1
                } else {
                    rejected += 1
                }
            }
            "DIED" => {
                classes.entry(format!("loader-aborts-the-process: {}", if r.idx < docs.len() { docs[r.idx].why.split(" (").next().unwrap_or("").split(" with ").next().unwrap_or("").to_string() } else { "arrangement".into() })).or_insert((format!("{}\n{}", what, r.detail), replay));
            }
            "PANIC" => {
                classes.entry("loader-panics".to_string()).or_insert((format!("{}\n{}", what, r.detail), replay));
            }
            "NAMES-NOT-UNIQUE" => {
                classes.entry("duplicate-project-names-accepted".to_string()).or_insert((format!("{}\n{}", what, r.detail), replay));
            }
            "ACCEPTED-INVALID" => {
                let key = if r.idx < docs.len() { format!("invalid-document-accepted: {}", first_rule(&docs[r.idx].why)) } else { format!("invalid-arrangement-accepted: {}", r.detail.split(" but ").next().unwrap_or("").split(" d").next().unwrap_or("")) };
                classes.entry(key).or_insert((format!("{}\n{}", what, r.detail), replay));
            }
            "REJECTED-VALID" => {
                let key = if r.idx < docs.len() { format!("valid-document-rejected: {}", first_rule(&docs[r.idx].why)) } else { "valid-arrangement-rejected".to_string() };
                classes.entry(key).or_insert((format!("{}\n{}", what, r.detail), replay));
            }
            "WRONG-MEANING" => {
                classes.entry("accepted-with-the-wrong-meaning".to_string()).or_insert((format!("{}\n{}", what, r.detail), replay));
            }
            "RANGE-ABANDONED" => {}
            _ => rep.machinery_errors.push(format!("case {}: {} {}", r.idx, r.verdict, r.detail)),
        }
    }
    let died = res.iter().any(|r| r.verdict == "DIED");
    if seen.len() != total && !died {
        rep.machinery_errors.push(format!("only {} of {} cases reported", seen.len(), total));
    }
    for (fp, (d, r)) in classes {
        rep.violation(fp, d, r);
    }
    let structured = structured_docs();
    let n_accept = structured.iter().filter(|d| d.expect == Expect::Accept).count();
    let n_reject = structured.iter().filter(|d| d.expect == Expect::Reject).count();
    rep.set("states", json!(accepted + rejected));
    rep.set("transitions", json!(total));
    rep.set("traces_validated_against_impl", json!(total));
    rep.set("documents", json!(docs.len()));
    rep.set("structured_documents_expected_accept", json!(n_accept));
    rep.set("structured_documents_expected_reject", json!(n_reject));
    rep.set("arrangements", json!(arrs.len()));
    rep.set("accepted_by_the_loader", json!(accepted));
    rep.set("rejected_by_the_loader", json!(rejected));
    rep.set("exhaustive", json!(true));
    if let Some(d) = structured.iter().find(|d| d.expect == Expect::Reject && d.why.contains("bogus")) {
        rep.push_sample(json!({"document": String::from_utf8_lossy(&d.text), "expected": "reject"}));
    }
    if let Some(a) = arrs.get(arrs.len() / 3) {
        rep.push_sample(json!({"arrangement": format!("{:?}", a), "expected": format!("{:?}", expect_arrangement(a).0)}));
    }
    rep.set("bounds", json!({"structured": "every combination of build/service/dependencies/input/output/bogus value shapes for one target; project and target name menus; top-level shapes", "byte_level": "6 seed documents: every single-byte deletion, every truncation, 11 inserted tokens at every (2nd) offset; alias bomb; nesting 100/1000/10000", "arrangements": "3 directories, names in {none,a,b}, root with <=2 imports, others <=1 (2 thorough), targets incl. missing directory, second spelling of the same directory, self-import"}));
    rep.set("rule", json!("states = cases with a definite loader verdict; transitions = documents and arrangements loaded through Config::load + resolver, each in an abort-isolated worker"));
}

fn first_rule(why: &str) -> String {
    why.lines().next().unwrap_or("").chars().take(60).collect()
}
