//! Configuration alphabet for the actor engine (DESIGN §3.6).
use crate::sys::*;
use std::collections::BTreeSet;

pub const NAMES: [&str; 6] = ["a", "b", "c", "d", "e", "f"];

pub fn t(name: &str, kind: Kind, deps: &[&str]) -> TSpec {
    TSpec { name: name.into(), kind, deps: deps.iter().map(|s| s.to_string()).collect(), has_input: false, inputs: vec![], from: vec![], output: None }
}

pub fn cfg(name: &str, targets: Vec<TSpec>, roots: &[&str]) -> Cfg {
    Cfg { name: name.into(), targets, roots: roots.iter().map(|s| s.to_string()).collect(), ..Default::default() }
}

/// A DAG on n nodes in a fixed topological order (node i may depend on j > i) with kinds.
#[derive(Clone, Debug, PartialEq, Eq, PartialOrd, Ord)]
pub struct Shape {
    pub kinds: Vec<Kind>,
    /// edges[i] = sorted list of j > i that i depends on
    pub edges: Vec<Vec<usize>>,
}

impl Shape {
    pub fn n(&self) -> usize {
        self.kinds.len()
    }
    fn encode_perm(&self, perm: &[usize]) -> Option<(Vec<Kind>, Vec<Vec<usize>>)> {
        // perm[old] = new ; valid iff every edge still goes from lower to higher index
        let n = self.n();
        let mut kinds = vec![Kind::B; n];
        let mut edges = vec![vec![]; n];
        for old in 0..n {
            kinds[perm[old]] = self.kinds[old];
            for &j in &self.edges[old] {
                if perm[old] >= perm[j] {
                    return None;
                }
                edges[perm[old]].push(perm[j]);
            }
        }
        for e in edges.iter_mut() {
            e.sort();
        }
        Some((kinds, edges))
    }
    /// canonical representative under relabelling
    pub fn canonical(&self) -> Shape {
        let n = self.n();
        let mut best: Option<(Vec<Kind>, Vec<Vec<usize>>)> = None;
        let mut perm: Vec<usize> = (0..n).collect();
        permute(&mut perm, 0, &mut |p| {
            if let Some(enc) = self.encode_perm(p) {
                if best.as_ref().map(|b| enc < *b).unwrap_or(true) {
                    best = Some(enc);
                }
            }
        });
        let (kinds, edges) = best.unwrap();
        Shape { kinds, edges }
    }
    pub fn to_targets(&self) -> Vec<TSpec> {
        (0..self.n())
            .map(|i| {
                let deps: Vec<&str> = self.edges[i].iter().map(|&j| NAMES[j]).collect();
                t(NAMES[i], self.kinds[i], &deps)
            })
            .collect()
    }
}

fn permute(p: &mut Vec<usize>, k: usize, f: &mut dyn FnMut(&[usize])) {
    if k == p.len() {
        f(p);
        return;
    }
    for i in k..p.len() {
        p.swap(k, i);
        permute(p, k + 1, f);
        p.swap(k, i);
    }
}

/// all canonical shapes with exactly n nodes
pub fn shapes(n: usize) -> Vec<Shape> {
    let pairs: Vec<(usize, usize)> = (0..n).flat_map(|i| ((i + 1)..n).map(move |j| (i, j))).collect();
    let mut out = BTreeSet::new();
    let kinds_all = [Kind::B, Kind::S, Kind::A];
    for mask in 0u32..(1 << pairs.len()) {
        let mut edges = vec![vec![]; n];
        for (b, &(i, j)) in pairs.iter().enumerate() {
            if mask & (1 << b) != 0 {
                edges[i].push(j);
            }
        }
        let mut kidx = vec![0usize; n];
        loop {
            let kinds: Vec<Kind> = kidx.iter().map(|&k| kinds_all[k]).collect();
            let s = Shape { kinds, edges: edges.clone() };
            out.insert(s.canonical());
            // next kind assignment
            let mut p = 0;
            loop {
                if p == n {
                    break;
                }
                kidx[p] += 1;
                if kidx[p] < 3 {
                    break;
                }
                kidx[p] = 0;
                p += 1;
            }
            if p == n {
                break;
            }
        }
    }
    out.into_iter().collect()
}

/// requested lists (ordered, duplicates allowed, length ≤ max_len) whose closure is the whole graph
pub fn root_lists(shape: &Shape, max_len: usize) -> Vec<Vec<usize>> {
    let n = shape.n();
    let mut out = vec![];
    let reach = |roots: &[usize]| -> usize {
        let mut seen = vec![false; n];
        let mut stack: Vec<usize> = roots.to_vec();
        while let Some(x) = stack.pop() {
            if seen[x] {
                continue;
            }
            seen[x] = true;
            stack.extend(shape.edges[x].iter().cloned());
        }
        seen.iter().filter(|&&b| b).count()
    };
    let mut lists: Vec<Vec<usize>> = (0..n).map(|i| vec![i]).collect();
    let mut cur = lists.clone();
    for _ in 1..max_len {
        let mut next = vec![];
        for l in &cur {
            for i in 0..n {
                let mut l2 = l.clone();
                l2.push(i);
                next.push(l2);
            }
        }
        lists.extend(next.iter().cloned());
        cur = next;
    }
    for l in lists {
        if reach(&l) == n {
            out.push(l);
        }
    }
    out
}

pub fn shape_cfgs(n: usize, max_roots: usize) -> Vec<Cfg> {
    let mut out = vec![];
    for s in shapes(n) {
        for roots in root_lists(&s, max_roots) {
            let r: Vec<&str> = roots.iter().map(|&i| NAMES[i]).collect();
            out.push(cfg(&format!("g{}", n), s.to_targets(), &r));
        }
    }
    out
}

use Kind::*;

/// the named 4-target shapes of DESIGN §3.6
pub fn named4() -> Vec<Cfg> {
    vec![
        cfg("diamond-B", vec![t("a", B, &["b", "c"]), t("b", B, &["d"]), t("c", B, &["d"]), t("d", B, &[])], &["a"]),
        cfg("diamond-S-bottom", vec![t("a", B, &["b", "c"]), t("b", B, &["d"]), t("c", B, &["d"]), t("d", S, &[])], &["a"]),
        cfg("diamond-S-middle", vec![t("a", B, &["b", "c"]), t("b", S, &["d"]), t("c", B, &["d"]), t("d", B, &[])], &["a"]),
        cfg("diamond-A-middle", vec![t("a", B, &["b", "c"]), t("b", A, &["d"]), t("c", B, &["d"]), t("d", B, &[])], &["a"]),
        cfg("diamond-A-top", vec![t("a", A, &["b", "c"]), t("b", B, &["d"]), t("c", B, &["d"]), t("d", B, &[])], &["a"]),
        cfg("agg-over-two-services", vec![t("a", A, &["b", "c"]), t("b", S, &["d"]), t("c", S, &["d"]), t("d", B, &[])], &["a"]),
        cfg("agg-over-B+S", vec![t("a", A, &["b", "c"]), t("b", B, &["d"]), t("c", S, &[]), t("d", B, &[])], &["a"]),
        cfg("nested-aggregates", vec![t("a", A, &["b"]), t("b", A, &["c", "d"]), t("c", B, &[]), t("d", S, &[])], &["a"]),
        cfg("B-S-B-chain", vec![t("a", B, &["b"]), t("b", S, &["c"]), t("c", B, &["d"]), t("d", B, &[])], &["a"]),
        cfg("two-roots-sharing-leaf", vec![t("a", B, &["c"]), t("b", B, &["c"]), t("c", B, &["d"]), t("d", B, &[])], &["a", "b"]),
        cfg("dep-before-dependent", vec![t("a", B, &["b"]), t("b", B, &["c"]), t("c", B, &["d"]), t("d", B, &[])], &["d", "a"]),
        cfg("dependent-before-dep", vec![t("a", B, &["b"]), t("b", B, &["c"]), t("c", B, &["d"]), t("d", B, &[])], &["a", "d"]),
        cfg("build-over-aggregate-of-two-builds", vec![t("a", B, &["b"]), t("b", A, &["c", "d"]), t("c", B, &[]), t("d", B, &[])], &["a"]),
        // an aggregate of builds with two requesters, one of them further away (late requester of a ready aggregate)
        cfg("aggregate-diamond", vec![t("a", A, &["c", "b"]), t("b", A, &["c"]), t("c", A, &["d"]), t("d", B, &[])], &["a"]),
        cfg("service-over-aggregate-of-build-and-service", vec![t("a", S, &["b"]), t("b", A, &["c", "d"]), t("c", B, &[]), t("d", S, &[])], &["a"]),
    ]
}

pub fn named5() -> Vec<Cfg> {
    vec![
        cfg("double-diamond", vec![t("a", B, &["b", "c"]), t("b", B, &["d", "e"]), t("c", B, &["e", "d"]), t("d", B, &[]), t("e", B, &[])], &["a"]),
        cfg("fan-out-4", vec![t("a", B, &["b", "c", "d", "e"]), t("b", B, &[]), t("c", B, &[]), t("d", B, &[]), t("e", B, &[])], &["a"]),
        cfg("fan-in-4", vec![t("a", A, &["b", "c", "d"]), t("b", B, &["e"]), t("c", B, &["e"]), t("d", B, &["e"]), t("e", B, &[])], &["a"]),
        cfg("chain-5", vec![t("a", B, &["b"]), t("b", A, &["c"]), t("c", B, &["d"]), t("d", S, &["e"]), t("e", B, &[])], &["a"]),
    ]
}

/// fan-out: one aggregate/build over k leaves
pub fn fan_out(k: usize, top: Kind, leaf: Kind) -> Cfg {
    let names: Vec<String> = (0..k).map(|i| format!("l{}", i)).collect();
    let refs: Vec<&str> = names.iter().map(|s| s.as_str()).collect();
    let mut ts = vec![t("top", top, &refs)];
    for n in &names {
        ts.push(t(n, leaf, &[]));
    }
    cfg(&format!("fan-out-{}", k), ts, &["top"])
}

/// fan-in: k roots over one leaf
pub fn fan_in(k: usize, leaf: Kind) -> Cfg {
    let names: Vec<String> = (0..k).map(|i| format!("r{}", i)).collect();
    let mut ts = vec![];
    for n in &names {
        ts.push(t(n, B, &["leaf"]));
    }
    ts.push(t("leaf", leaf, &[]));
    let refs: Vec<&str> = names.iter().map(|s| s.as_str()).collect();
    cfg(&format!("fan-in-{}", k), ts, &refs)
}

pub fn chain(k: usize) -> Cfg {
    let names: Vec<String> = (0..k).map(|i| format!("n{}", i)).collect();
    let mut ts = vec![];
    for i in 0..k {
        let deps: Vec<&str> = if i + 1 < k { vec![names[i + 1].as_str()] } else { vec![] };
        ts.push(t(&names[i], B, &deps));
    }
    cfg(&format!("chain-{}", k), ts, &[names[0].as_str()])
}
