//! Shared helpers of the sequential checks (E2) and of binbox (E3): scratch trees, explicit
//! mtimes, tree snapshots, subprocess isolation.
use std::collections::BTreeMap;
use std::ffi::{CString, OsStr, OsString};
use std::io::{BufRead, BufReader};
use std::os::unix::ffi::{OsStrExt, OsStringExt};
use std::path::{Path, PathBuf};
use std::process::{Command, Stdio};

pub fn scratch(sub: &str) -> PathBuf {
    let p = crate::explore::scratch_root().join(sub);
    let _ = std::fs::remove_dir_all(&p);
    std::fs::create_dir_all(&p).expect("scratch dir");
    p
}

pub fn set_mtime(p: &Path, secs: i64) {
    let t = libc::timespec { tv_sec: secs, tv_nsec: 0 };
    let times = [t, t];
    let c = CString::new(p.as_os_str().as_bytes()).unwrap();
    let r = unsafe { libc::utimensat(libc::AT_FDCWD, c.as_ptr(), times.as_ptr(), libc::AT_SYMLINK_NOFOLLOW) };
    assert_eq!(r, 0, "utimensat {:?}", p);
}

pub fn get_mtime(p: &Path) -> Option<i64> {
    use std::os::unix::fs::MetadataExt;
    // follows symlinks, like the state recorded by zinoma for a symlinked file
    std::fs::metadata(p).ok().map(|m| m.mtime())
}

pub fn mkfifo(p: &Path) {
    let c = CString::new(p.as_os_str().as_bytes()).unwrap();
    let r = unsafe { libc::mkfifo(c.as_ptr(), 0o644) };
    assert_eq!(r, 0, "mkfifo {:?}", p);
}

pub fn os(bytes: &[u8]) -> OsString {
    OsString::from_vec(bytes.to_vec())
}

#[derive(Clone, Debug, PartialEq, Eq, PartialOrd, Ord)]
pub enum Node {
    File(Vec<u8>),
    Dir,
    Link(PathBuf),
    Other,
}

/// full recursive snapshot: relative path -> node (symlinks not followed)
pub fn snapshot(root: &Path) -> BTreeMap<PathBuf, Node> {
    let mut out = BTreeMap::new();
    fn walk(root: &Path, dir: &Path, out: &mut BTreeMap<PathBuf, Node>) {
        let rd = match std::fs::read_dir(dir) {
            Ok(r) => r,
            Err(_) => return,
        };
        for e in rd.flatten() {
            let p = e.path();
            let rel = p.strip_prefix(root).unwrap().to_path_buf();
            let md = match std::fs::symlink_metadata(&p) {
                Ok(m) => m,
                Err(_) => continue,
            };
            let ft = md.file_type();
            if ft.is_symlink() {
                out.insert(rel, Node::Link(std::fs::read_link(&p).unwrap_or_default()));
            } else if ft.is_dir() {
                out.insert(rel, Node::Dir);
                walk(root, &p, out);
            } else if ft.is_file() {
                out.insert(rel, Node::File(std::fs::read(&p).unwrap_or_default()));
            } else {
                out.insert(rel, Node::Other);
            }
        }
    }
    walk(root, root, &mut out);
    out
}

pub fn lossy(p: &Path) -> String {
    p.to_string_lossy().to_string()
}

pub fn write(p: &Path, content: &[u8]) {
    if let Some(d) = p.parent() {
        std::fs::create_dir_all(d).unwrap();
    }
    std::fs::write(p, content).unwrap_or_else(|e| panic!("write {:?}: {}", p, e));
}

pub fn name_bytes(p: &Path) -> Vec<u8> {
    p.file_name().map(|n| n.as_bytes().to_vec()).unwrap_or_default()
}

pub fn osstr(b: &[u8]) -> &OsStr {
    OsStr::from_bytes(b)
}

/// One case result coming back from an isolated worker.
#[derive(Clone, Debug)]
pub struct CaseOut {
    pub idx: usize,
    pub verdict: String,
    pub detail: String,
}

/// Run `zv worker <kind> <tier> <start> <end>` subprocesses over [0,total) so that a case that aborts
/// the process (stack overflow, allocation failure) is attributed to that case instead of killing the checker.
/// The worker prints `CASE\t<idx>` before each case and `RES\t<idx>\t<verdict>\t<detail>` after it, `DONE` at the end.
pub fn run_isolated(kind: &str, tier: &str, total: usize, workers: usize, extra: &[String]) -> Vec<CaseOut> {
    let exe = std::env::current_exe().expect("current exe");
    let chunk = (total + workers - 1) / workers.max(1);
    let mut ranges: Vec<(usize, usize)> = (0..workers).map(|w| (w * chunk, ((w + 1) * chunk).min(total))).filter(|(a, b)| a < b).collect();
    let mut extra: Vec<String> = extra.to_vec();
    if let Some(p) = extra.iter().position(|a| a == "--only") {
        let idx: usize = extra[p + 1].parse().unwrap();
        ranges = vec![(idx, idx + 1)];
        extra.truncate(p);
    }
    let extra = &extra[..];
    let parent_root = crate::explore::scratch_root();
    let parent_name = parent_root.file_name().unwrap().to_string_lossy().to_string();
    let indexed: Vec<(usize, (usize, usize))> = ranges.iter().cloned().enumerate().collect();
    let results: Vec<Vec<CaseOut>> = crate::explore::par_map(&indexed, workers, |&(wi, (start, end))| {
        // same length as the parent's scratch root, distinct per worker
        let wroot = parent_root.with_file_name(format!("{}-w{:02}", &parent_name[..parent_name.len() - 4], wi % 99));
        let mut out = vec![];
        let mut next = start;
        let mut deaths = 0;
        while next < end {
            let started_at = next;
            let mut cmd = Command::new(&exe);
            cmd.arg("worker").arg(kind).arg(tier).arg(next.to_string()).arg(end.to_string()).args(extra);
            cmd.env("VERIF_SCRATCH", &wroot);
            cmd.stdout(Stdio::piped()).stderr(Stdio::piped());
            let mut child = cmd.spawn().expect("spawn worker");
            let stdout = child.stdout.take().unwrap();
            let stderr = child.stderr.take().unwrap();
            let errh = std::thread::spawn(move || {
                let mut s = String::new();
                let _ = std::io::Read::read_to_string(&mut BufReader::new(stderr), &mut s);
                s
            });
            let mut current: Option<usize> = None;
            let mut done = false;
            for line in BufReader::new(stdout).lines().flatten() {
                let mut it = line.splitn(4, '\t');
                match it.next() {
                    Some("CASE") => current = it.next().and_then(|s| s.parse().ok()),
                    Some("RES") => {
                        let idx: usize = it.next().and_then(|s| s.parse().ok()).unwrap_or(usize::MAX);
                        let verdict = it.next().unwrap_or("").to_string();
                        let detail = it.next().unwrap_or("").replace("\\n", "\n");
                        out.push(CaseOut { idx, verdict, detail });
                        current = None;
                        next = idx + 1;
                    }
                    Some("DONE") => done = true,
                    _ => {}
                }
            }
            let status = child.wait().expect("wait worker");
            let err = errh.join().unwrap_or_default();
            let _ = std::fs::remove_dir_all(&wroot);
            if done {
                break;
            }
            match current {
                Some(idx) => {
                    let tail: String = err.lines().rev().take(6).collect::<Vec<_>>().into_iter().rev().collect::<Vec<_>>().join(" | ");
                    out.push(CaseOut { idx, verdict: "DIED".into(), detail: format!("worker process ended with {} while evaluating this case; stderr tail: {}", status, tail) });
                    next = idx + 1;
                    deaths += 1;
                    if deaths >= 8 {
                        // the same failure keeps killing the worker: eight witnesses are enough, the rest of the range is not evaluated
                        out.push(CaseOut { idx: next, verdict: "RANGE-ABANDONED".into(), detail: format!("{} cases of this range killed their worker; cases {}..{} not evaluated", deaths, next, end) });
                        break;
                    }
                }
                None if status.success() && next > started_at => {
                    // the worker asked for a restart after a case that left it in a bad state
                    continue;
                }
                None => {
                    out.push(CaseOut { idx: next, verdict: "MACHINERY".into(), detail: format!("worker ended with {} outside any case: {}", status, err.lines().last().unwrap_or("")) });
                    break;
                }
            }
        }
        out
    });
    let mut all: Vec<CaseOut> = results.into_iter().flatten().collect();
    all.sort_by_key(|c| c.idx);
    all
}

/// worker side: emit protocol lines
pub fn emit_case(idx: usize) {
    println!("CASE\t{}", idx);
    use std::io::Write;
    let _ = std::io::stdout().flush();
}
pub fn emit_res(idx: usize, verdict: &str, detail: &str) {
    println!("RES\t{}\t{}\t{}", idx, verdict, detail.replace('\n', "\\n").replace('\t', " "));
    use std::io::Write;
    let _ = std::io::stdout().flush();
}
pub fn emit_done() {
    println!("DONE");
}

/// re-evaluate one case alone in a fresh worker process (used to confirm a verdict before reporting it)
pub fn rerun_case(kind: &str, tier: &str, idx: usize) -> CaseOut {
    let r = run_isolated(kind, tier, idx + 1, 1, &["--only".to_string(), idx.to_string()]);
    r.into_iter().find(|c| c.idx == idx).unwrap_or(CaseOut { idx, verdict: "MACHINERY".into(), detail: "rerun produced no result".into() })
}
