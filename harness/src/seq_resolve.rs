//! C09 / C19 (and the resolution half of C13): the real resolver against an independent
//! closure / cycle / kind / naming computation, over all small project worlds.
use crate::report::Report;
use crate::sys::Kind;
use serde_json::json;
use std::collections::{BTreeMap, BTreeSet, HashMap};
use std::path::PathBuf;
use zinoma::verif_api::{domain, ir, yaml};

#[derive(Clone, Debug, PartialEq, Eq, Hash)]
pub struct RefSpec {
    pub output: bool,
    pub spelled: String,
}
#[derive(Clone, Debug, PartialEq, Eq, Hash)]
pub struct NodeSpec {
    pub proj: usize,
    pub name: String,
    pub kind: Kind,
    /// `dependencies:` entries in order
    pub deps: Vec<String>,
    /// `X.output` input entries in order (spelled without the `.output` suffix)
    pub outs: Vec<String>,
}
#[derive(Clone, Debug, PartialEq, Eq, Hash)]
pub struct WorldSpec {
    /// project names; index 0 is the root project (may be unnamed)
    pub projects: Vec<Option<String>>,
    pub nodes: Vec<NodeSpec>,
}

pub fn proj_dir(i: usize) -> PathBuf {
    PathBuf::from(format!("/zvproj/p{}", i))
}

impl WorldSpec {
    pub fn describe(&self) -> String {
        let mut s = String::new();
        for (i, p) in self.projects.iter().enumerate() {
            s += &format!("project#{} name={:?}: ", i, p);
            for n in self.nodes.iter().filter(|n| n.proj == i) {
                s += &format!("{}:{:?} deps={:?} outputs_of={:?}; ", n.name, n.kind, n.deps, n.outs);
            }
        }
        s
    }
    pub fn to_yaml_config(&self) -> yaml::Config {
        let mut projects = HashMap::new();
        for (pi, pname) in self.projects.iter().enumerate() {
            let mut targets = HashMap::new();
            for n in self.nodes.iter().filter(|n| n.proj == pi) {
                let deps = yaml::Dependencies(n.deps.clone());
                let mut input = vec![yaml::InputResource::Files { paths: vec![format!("in_{}", n.name)], extensions: None }];
                for o in &n.outs {
                    input.push(yaml::InputResource::DependencyOutput(format!("{}.output", o)));
                }
                let t = match n.kind {
                    Kind::B => yaml::Target::Build {
                        dependencies: deps,
                        build: ":".into(),
                        input: yaml::InputResources(input),
                        output: yaml::OutputResources(vec![
                            yaml::OutputResource::Files { paths: vec![format!("out_{}", n.name)], extensions: Some(vec!["o".into()]) },
                            yaml::OutputResource::CmdStdout { cmd_stdout: format!("echo {}", n.name) },
                        ]),
                    },
                    Kind::S => yaml::Target::Service { dependencies: deps, service: ":".into(), input: yaml::InputResources(input) },
                    Kind::A => yaml::Target::Aggregate { dependencies: deps },
                };
                targets.insert(n.name.clone(), t);
            }
            // imports are irrelevant to ir::Config (already followed by the loader)
            projects.insert(proj_dir(pi), yaml::Project { targets, name: pname.clone(), imports: HashMap::new() });
        }
        yaml::Config { root_project_dir: proj_dir(0), projects }
    }
    /// reference name resolution: a reference spelled `s` inside project `p`
    pub fn resolve(&self, s: &str, p: usize) -> Option<usize> {
        let (pname, tname): (Option<String>, &str) = match s.split_once("::") {
            Some((a, b)) => (Some(a.to_string()), b),
            None => (self.projects[p].clone(), s),
        };
        let pi = if s.contains("::") { self.projects.iter().position(|x| x == &pname)? } else { p };
        self.nodes.iter().position(|n| n.proj == pi && n.name == tname)
    }
    pub fn id_of(&self, i: usize) -> domain::TargetId {
        domain::TargetId { project_name: self.projects[self.nodes[i].proj].clone(), target_name: self.nodes[i].name.clone() }
    }
}

#[derive(Debug, Clone, PartialEq)]
pub enum Expect {
    Err(String),
    Ok(BTreeSet<usize>),
}

/// independent closure / cycle / kind computation
pub fn reference(w: &WorldSpec, requested: &[Option<usize>]) -> Expect {
    let mut reach: BTreeSet<usize> = BTreeSet::new();
    let mut stack = vec![];
    for r in requested {
        match r {
            None => return Expect::Err("requested target unknown".into()),
            Some(i) => stack.push(*i),
        }
    }
    let mut unknown = false;
    let mut bad_output = false;
    let mut adj: BTreeMap<usize, Vec<usize>> = BTreeMap::new();
    while let Some(i) = stack.pop() {
        if !reach.insert(i) {
            continue;
        }
        let n = &w.nodes[i];
        let mut a = vec![];
        for d in &n.deps {
            match w.resolve(d, n.proj) {
                Some(j) => a.push(j),
                None => unknown = true,
            }
        }
        if n.kind != Kind::A {
            for o in &n.outs {
                match w.resolve(o, n.proj) {
                    Some(j) => {
                        a.push(j);
                        if w.nodes[j].kind != Kind::B {
                            bad_output = true;
                        }
                    }
                    None => unknown = true,
                }
            }
        }
        stack.extend(a.iter().cloned());
        adj.insert(i, a);
    }
    if unknown {
        return Expect::Err("a reachable reference names an unknown project or target".into());
    }
    // three-colour DFS
    let mut colour: BTreeMap<usize, u8> = BTreeMap::new();
    fn dfs(u: usize, adj: &BTreeMap<usize, Vec<usize>>, colour: &mut BTreeMap<usize, u8>) -> bool {
        colour.insert(u, 1);
        for &v in &adj[&u] {
            match colour.get(&v).cloned().unwrap_or(0) {
                1 => return true,
                0 => {
                    if dfs(v, adj, colour) {
                        return true;
                    }
                }
                _ => {}
            }
        }
        colour.insert(u, 2);
        false
    }
    for &u in &reach {
        if colour.get(&u).cloned().unwrap_or(0) == 0 && dfs(u, &adj, &mut colour) {
            return Expect::Err("cycle".into());
        }
    }
    if bad_output {
        return Expect::Err("output of a non-build target".into());
    }
    Expect::Ok(reach)
}

pub struct CaseVerdict {
    pub ok: bool,
    pub fingerprint: String,
    pub detail: String,
}

/// compare the real resolver with the reference on one (world, requested) case
pub fn check_case(w: &WorldSpec, requested: &[Option<usize>], requested_ids: &[domain::TargetId]) -> Option<CaseVerdict> {
    let exp = reference(w, requested);
    let cfg: ir::Config = w.to_yaml_config().into();
    let got = cfg.try_into_domain_targets(requested_ids);
    let class = |w: &WorldSpec| -> String {
        let kinds: Vec<String> = w.nodes.iter().map(|n| format!("{:?}", n.kind)).collect();
        format!("{} nodes {} projects kinds={}", w.nodes.len(), w.projects.len(), kinds.join(""))
    };
    match (&exp, got) {
        (Expect::Err(_), Err(_)) => None,
        (Expect::Err(why), Ok(m)) => Some(CaseVerdict { ok: false, fingerprint: format!("accepted-but-must-be-rejected: {}", why), detail: format!("{}\nrequested {:?}\nresolver returned Ok with {} targets, reference says reject: {} [{}]", w.describe(), requested_ids.iter().map(|t| t.to_string()).collect::<Vec<_>>(), m.len(), why, class(w)) }),
        (Expect::Ok(_), Err(e)) => Some(CaseVerdict { ok: false, fingerprint: format!("rejected-but-valid: {}", first_words(&format!("{:#}", e))), detail: format!("{}\nrequested {:?}\nresolver error: {:#}", w.describe(), requested_ids.iter().map(|t| t.to_string()).collect::<Vec<_>>(), e) }),
        (Expect::Ok(reach), Ok(m)) => {
            let want: BTreeSet<String> = reach.iter().map(|&i| w.id_of(i).to_string()).collect();
            let have: BTreeSet<String> = m.keys().map(|k| k.to_string()).collect();
            if want != have {
                return Some(CaseVerdict { ok: false, fingerprint: "resolved-set-is-not-the-closure".into(), detail: format!("{}\nrequested {:?}\nresolved {:?}\nclosure  {:?}", w.describe(), requested_ids.iter().map(|t| t.to_string()).collect::<Vec<_>>(), have, want) });
            }
            for &i in reach {
                let n = &w.nodes[i];
                let t = &m[&w.id_of(i)];
                let kind_ok = matches!((n.kind, t), (Kind::B, domain::Target::Build(_)) | (Kind::S, domain::Target::Service(_)) | (Kind::A, domain::Target::Aggregate(_)));
                if !kind_ok {
                    return Some(CaseVerdict { ok: false, fingerprint: "wrong-target-kind".into(), detail: format!("{}\n{} resolved with the wrong kind", w.describe(), n.name) });
                }
                // dependencies = declared then producers, each resolved in the declaring project
                let mut want_deps: Vec<String> = n.deps.iter().map(|d| w.id_of(w.resolve(d, n.proj).unwrap()).to_string()).collect();
                if n.kind != Kind::A {
                    want_deps.extend(n.outs.iter().map(|d| w.id_of(w.resolve(d, n.proj).unwrap()).to_string()));
                }
                let have_deps: Vec<String> = t.dependencies().iter().map(|d| d.to_string()).collect();
                if want_deps != have_deps {
                    return Some(CaseVerdict { ok: false, fingerprint: "dependencies-resolved-differently".into(), detail: format!("{}\ntarget {}: resolver dependencies {:?}, expected {:?}", w.describe(), w.id_of(i), have_deps, want_deps) });
                }
                // effective input = own resources then each producer's outputs, anchored in the producer's directory
                if n.kind != Kind::A {
                    let inp = t.input().unwrap();
                    let mut want_files: Vec<(Vec<PathBuf>, Option<Vec<String>>)> = vec![(vec![proj_dir(n.proj).join(format!("in_{}", n.name))], None)];
                    let mut want_cmds: Vec<(String, PathBuf)> = vec![];
                    for o in &n.outs {
                        let j = w.resolve(o, n.proj).unwrap();
                        let pn = &w.nodes[j];
                        want_files.push((vec![proj_dir(pn.proj).join(format!("out_{}", pn.name))], Some(vec![".o".to_string()])));
                        want_cmds.push((format!("echo {}", pn.name), proj_dir(pn.proj)));
                    }
                    let have_files: Vec<(Vec<PathBuf>, Option<Vec<String>>)> = inp.files.iter().map(|f| (f.paths.iter().map(|p| PathBuf::from(p.as_os_str().to_os_string())).collect(), f.extensions.as_ref().map(|e| e.iter().cloned().collect()))).collect();
                    let have_cmds: Vec<(String, PathBuf)> = inp.cmds.iter().map(|c| (c.cmd.clone(), PathBuf::from(c.dir.as_os_str().to_os_string()))).collect();
                    if want_files != have_files || want_cmds != have_cmds {
                        return Some(CaseVerdict { ok: false, fingerprint: "inherited-input-differs".into(), detail: format!("{}\ntarget {}: input files {:?} cmds {:?}\nexpected files {:?} cmds {:?}", w.describe(), w.id_of(i), have_files, have_cmds, want_files, want_cmds) });
                    }
                }
            }
            None
        }
    }
}

fn first_words(s: &str) -> String {
    s.split_whitespace().take(3).collect::<Vec<_>>().join(" ")
}

// ---------------------------------------------------------------------------------------
// enumeration

const TNAMES: [&str; 3] = ["x", "y", "z"];

/// label of an ordered pair: 0 none, 1 dependency, 2 .output, 3 both
fn worlds_n(n: usize, max_edges: usize, allow_both: bool, f: &mut dyn FnMut(&WorldSpec)) {
    let npairs = n * n;
    let nlabels = if allow_both { 4 } else { 3 };
    let kinds_all = [Kind::B, Kind::S, Kind::A];
    // extra references: per world at most one node carries a reference to an unknown target / project
    // 0 none; 1 dep->unknown target; 2 output->unknown target; 3 dep->unknown project
    let mut labels = vec![0usize; npairs];
    loop {
        let edges = labels.iter().filter(|&&l| l != 0).count();
        if edges <= max_edges {
            let mut kidx = vec![0usize; n];
            loop {
                // aggregates have no input: no .output label leaves them
                let kinds: Vec<Kind> = kidx.iter().map(|&k| kinds_all[k]).collect();
                let legal = (0..n).all(|i| kinds[i] != Kind::A || (0..n).all(|j| labels[i * n + j] < 2));
                if legal {
                    for extra_node in 0..=n {
                        for extra_kind in 1..=3usize {
                            if extra_node == n && extra_kind > 1 {
                                continue; // no extra reference: once
                            }
                            if extra_node < n && kinds[extra_node] == Kind::A && extra_kind == 2 {
                                continue;
                            }
                            let mut nodes = vec![];
                            for i in 0..n {
                                let mut deps = vec![];
                                let mut outs = vec![];
                                for j in 0..n {
                                    let l = labels[i * n + j];
                                    if l & 1 != 0 {
                                        deps.push(TNAMES[j].to_string());
                                    }
                                    if l & 2 != 0 {
                                        outs.push(TNAMES[j].to_string());
                                    }
                                }
                                if extra_node == i {
                                    match extra_kind {
                                        1 => deps.push("ghost".into()),
                                        2 => outs.push("ghost".into()),
                                        _ => deps.push("nowhere::x".into()),
                                    }
                                }
                                nodes.push(NodeSpec { proj: 0, name: TNAMES[i].into(), kind: kinds[i], deps, outs });
                            }
                            f(&WorldSpec { projects: vec![None], nodes });
                        }
                    }
                }
                let mut p = 0;
                loop {
                    if p == n {
                        break;
                    }
                    kidx[p] += 1;
                    if kidx[p] < 3 {
                        break;
                    }
                    kidx[p] = 0;
                    p += 1;
                }
                if p == n {
                    break;
                }
            }
        }
        let mut p = 0;
        loop {
            if p == npairs {
                break;
            }
            labels[p] += 1;
            if labels[p] < nlabels {
                break;
            }
            labels[p] = 0;
            p += 1;
        }
        if p == npairs {
            break;
        }
    }
}

fn requests(n: usize) -> Vec<Vec<usize>> {
    let mut v = vec![];
    for i in 0..n {
        v.push(vec![i]);
    }
    for i in 0..n {
        for j in 0..n {
            if i != j {
                v.push(vec![i, j]);
            }
        }
    }
    v.push((0..n).collect()); // "all" (the --clean alone path)
    v
}

struct Acc {
    worlds: u64,
    cases: u64,
    accepted: u64,
    rejected: u64,
    distinct: BTreeSet<u64>,
    violations: BTreeMap<String, (String, serde_json::Value)>,
    sample: Vec<serde_json::Value>,
}

fn hash_of<T: std::hash::Hash>(t: &T) -> u64 {
    use std::hash::Hasher;
    let mut h = std::collections::hash_map::DefaultHasher::new();
    t.hash(&mut h);
    h.finish()
}

fn run_world(w: &WorldSpec, acc: &mut Acc) {
    acc.worlds += 1;
    let n = w.nodes.len();
    for req in requests(n) {
        let requested: Vec<Option<usize>> = req.iter().map(|&i| Some(i)).collect();
        let ids: Vec<domain::TargetId> = req.iter().map(|&i| w.id_of(i)).collect();
        acc.cases += 1;
        let exp = reference(w, &requested);
        match &exp {
            Expect::Ok(r) => {
                acc.accepted += 1;
                acc.distinct.insert(hash_of(&(w, &req, r)));
            }
            Expect::Err(e) => {
                acc.rejected += 1;
                acc.distinct.insert(hash_of(&(w, &req, e)));
            }
        }
        let res = std::panic::catch_unwind(|| check_case(w, &requested, &ids));
        match res {
            Ok(None) => {
                if acc.sample.len() < 2 && n >= 2 && matches!(exp, Expect::Ok(ref r) if r.len() >= 2) {
                    acc.sample.push(json!({"world": w.describe(), "requested": ids.iter().map(|t| t.to_string()).collect::<Vec<_>>(), "expected": format!("{:?}", exp)}));
                }
            }
            Ok(Some(v)) => {
                acc.violations.entry(v.fingerprint.clone()).or_insert((v.detail, json!({"engine": "seqcheck", "check": "resolver", "world": w.describe(), "requested": ids.iter().map(|t| t.to_string()).collect::<Vec<_>>()})));
            }
            Err(_) => {
                acc.violations.entry("resolver-panicked".into()).or_insert((format!("{}\nrequested {:?}: the resolver panicked", w.describe(), req), json!({"engine": "seqcheck", "check": "resolver", "world": w.describe()})));
            }
        }
    }
}

fn canary_worlds() -> Vec<WorldSpec> {
    let mut v = vec![];
    worlds_n(1, 9, true, &mut |w| v.push(w.clone()));
    worlds_n(2, 9, true, &mut |w| v.push(w.clone()));
    // three-node cycles and chains
    worlds_n(3, 3, false, &mut |w| {
        if w.nodes.iter().all(|n| n.kind == Kind::B) {
            v.push(w.clone())
        }
    });
    v
}

/// worker: a missed cycle is unbounded recursion, i.e. a stack overflow that kills the process;
/// the small worlds are therefore evaluated first in abort-isolated workers
pub fn worker(_thorough: bool, start: usize, end: usize) {
    let ws = canary_worlds();
    for idx in start..end.min(ws.len()) {
        crate::sequtil::emit_case(idx);
        let mut acc = Acc { worlds: 0, cases: 0, accepted: 0, rejected: 0, distinct: BTreeSet::new(), violations: BTreeMap::new(), sample: vec![] };
        run_world(&ws[idx], &mut acc);
        crate::sequtil::emit_res(idx, "OK", "");
    }
    crate::sequtil::emit_done();
}

pub fn check_c09(rep: &mut Report) {
    // every worker enumerates the whole space (cheap) and evaluates the worlds of its residue class
    let thorough = rep.thorough();
    let canary = canary_worlds();
    let res = crate::sequtil::run_isolated("c09", &rep.tier.clone(), canary.len(), 8, &[]);
    let died: Vec<&crate::sequtil::CaseOut> = res.iter().filter(|r| r.verdict == "DIED").collect();
    rep.set("abort_isolated_canary_worlds", json!(canary.len()));
    if let Some(d) = died.first() {
        let w = &canary[d.idx];
        rep.violation("resolver-kills-the-process (cyclic project hangs or overflows the stack)", format!("{}\n{}", w.describe(), d.detail), json!({"engine": "seqcheck", "check": "resolver", "world": w.describe()}));
        rep.set("states", json!(1));
        rep.set("transitions", json!(canary.len()));
        rep.set("traces_validated_against_impl", json!(canary.len()));
        return;
    }
    if res.iter().any(|r| r.verdict == "MACHINERY") || res.len() != canary.len() {
        rep.machinery_errors.push(format!("canary workers reported {} of {} worlds", res.len(), canary.len()));
    }
    let max3 = if thorough { 9 } else { 4 };
    let workers: Vec<usize> = (0..16).collect();
    let naming = naming_worlds(thorough);
    let accs: Vec<Acc> = crate::explore::par_map(&workers, 16, |&k| {
        let mut acc = Acc { worlds: 0, cases: 0, accepted: 0, rejected: 0, distinct: BTreeSet::new(), violations: BTreeMap::new(), sample: vec![] };
        let mut counter = 0usize;
        let mut visit = |w: &WorldSpec| {
            counter += 1;
            if counter % 16 == k {
                run_world(w, &mut acc);
            }
        };
        worlds_n(1, 9, true, &mut visit);
        worlds_n(2, 9, true, &mut visit);
        worlds_n(3, max3, false, &mut visit);
        for w in &naming {
            visit(w);
        }
        acc
    });
    let mut distinct = BTreeSet::new();
    let (mut worlds, mut cases, mut accepted, mut rejected) = (0, 0, 0, 0);
    for a in accs {
        worlds += a.worlds;
        cases += a.cases;
        accepted += a.accepted;
        rejected += a.rejected;
        distinct.extend(a.distinct);
        for (fp, (d, r)) in a.violations {
            rep.violation(fp, d, r);
        }
        for s in a.sample {
            rep.push_sample(s);
        }
    }
    rep.set("states", json!(distinct.len()));
    rep.set("transitions", json!(cases));
    rep.set("traces_validated_against_impl", json!(cases));
    rep.set("worlds", json!(worlds));
    rep.set("cases_expected_ok", json!(accepted));
    rep.set("cases_expected_rejected", json!(rejected));
    rep.set("exhaustive", json!(true));
    rep.set("bounds", json!({"nodes": "<=3", "pair_labels": "none/dependencies/.output/(both for <=2 nodes), self-loops included", "kinds": "B,S,A", "extra_reference": "none, unknown target (dep/.output), unknown project; on one node", "max_edges_3_nodes": max3, "requested": "every single, every ordered pair, all", "two_project_worlds": "colliding names, bare and qualified spellings"}));
    rep.set("rule", json!("states = distinct (world, requested, expected result) triples; transitions = resolver calls compared with the reference"));
}

/// two-project worlds with colliding target names, named/unnamed root, bare/qualified spellings
pub fn naming_worlds(thorough: bool) -> Vec<WorldSpec> {
    let mut out = vec![];
    let roots: [Option<&str>; 2] = [None, Some("r")];
    let kinds = [Kind::B, Kind::A];
    for root in roots {
        // (the third project's name contains a hyphen and ends in the second one's name)
        let projects = vec![root.map(|s| s.to_string()), Some("a".to_string()), Some("b-a".to_string())];
        // node set: t in every project, u in root and a
        let base: Vec<(usize, &str)> = vec![(0, "t"), (1, "t"), (2, "t"), (0, "u"), (1, "u")];
        // each node gets one reference chosen from a menu of spellings (or none)
        let menu: Vec<Option<(&str, bool)>> = vec![None, Some(("t", false)), Some(("u", false)), Some(("a::t", false)), Some(("b-a::t", false)), Some(("r::t", false)), Some(("a::u", true)), Some(("t", true)), Some(("b-a::u", false)), Some(("b-a::t", true))];
        let m = menu.len();
        let limit = if thorough { 5 } else { 3 };
        // choose references for the first `limit` nodes, none for the others
        let mut idx = vec![0usize; limit];
        loop {
            for &k0 in &kinds {
                let mut nodes = vec![];
                for (ni, (p, name)) in base.iter().enumerate() {
                    let mut deps = vec![];
                    let mut outs = vec![];
                    if ni < limit {
                        if let Some((s, is_out)) = menu[idx[ni]] {
                            if is_out {
                                outs.push(s.to_string());
                            } else {
                                deps.push(s.to_string());
                            }
                        }
                    }
                    let kind = if ni == 0 { k0 } else { Kind::B };
                    if kind == Kind::A && !outs.is_empty() {
                        outs.clear();
                    }
                    nodes.push(NodeSpec { proj: *p, name: name.to_string(), kind, deps, outs });
                }
                out.push(WorldSpec { projects: projects.clone(), nodes });
            }
            let mut p = 0;
            loop {
                if p == limit {
                    break;
                }
                idx[p] += 1;
                if idx[p] < m {
                    break;
                }
                idx[p] = 0;
                p += 1;
            }
            if p == limit {
                break;
            }
        }
    }
    out
}

/// C19: names resolve uniquely; root targets work bare and qualified
pub fn check_c19(rep: &mut Report) {
    let worlds = naming_worlds(rep.thorough());
    let mut cases = 0u64;
    let mut distinct = BTreeSet::new();
    let mut panicked_worlds = 0u64;
    for w in &worlds {
        let r = std::panic::catch_unwind(std::panic::AssertUnwindSafe(|| {
        // (1) the offered names: every qualified name, plus bare names of root targets
        let cfg: ir::Config = w.to_yaml_config().into();
        let offered: BTreeSet<String> = cfg.list_all_available_target_names().into_iter().collect();
        let mut want: BTreeSet<String> = BTreeSet::new();
        for n in &w.nodes {
            match &w.projects[n.proj] {
                Some(p) => {
                    want.insert(format!("{}::{}", p, n.name));
                    if n.proj == 0 {
                        want.insert(n.name.clone());
                    }
                }
                None => {
                    want.insert(n.name.clone());
                }
            }
        }
        cases += 1;
        if offered != want {
            rep.violation("offered-target-names-differ", format!("{}\noffered {:?}\nexpected {:?}", w.describe(), offered, want), json!({"engine": "seqcheck", "check": "C19", "world": w.describe()}));
        }
        // (2) every spelling of a request denotes the reference identity; both spellings of one target
        //     resolve to the same closure with that target present once
        let root_name = w.projects[0].clone();
        for s in &want {
            let parsed = domain::TargetId::try_parse(s, &root_name);
            cases += 1;
            let refi = w.resolve(s, 0);
            match (parsed, refi) {
                (Ok(id), Some(i)) => {
                    if id != w.id_of(i) {
                        rep.violation("request-spelling-resolves-to-another-target", format!("{}\nspelling {:?} parsed as {}, reference identity {}", w.describe(), s, id, w.id_of(i)), json!({"engine": "seqcheck", "check": "C19", "world": w.describe(), "spelling": s}));
                    }
                    distinct.insert(hash_of(&(w, s, i)));
                    // resolve through the real resolver and compare with the reference closure
                    if let Some(v) = check_case(w, &[Some(i)], &[id.clone()]) {
                        rep.violation(format!("C19/{}", v.fingerprint), v.detail, json!({"engine": "seqcheck", "check": "C19", "world": w.describe(), "spelling": s}));
                    }
                }
                (Ok(id), None) => rep.violation("offered-name-denotes-nothing", format!("{}\nspelling {:?} parsed as {} but the reference knows no such target", w.describe(), s, id), json!({"engine": "seqcheck", "check": "C19", "world": w.describe()})),
                (Err(e), _) => rep.violation("offered-name-does-not-parse", format!("{}\nspelling {:?}: {}", w.describe(), s, e), json!({"engine": "seqcheck", "check": "C19", "world": w.describe()})),
            }
        }
        // both spellings of each root target together: one entry in the resolved map
        if let Some(r) = &root_name {
            for n in w.nodes.iter().filter(|n| n.proj == 0) {
                let a = domain::TargetId::try_parse(&n.name, &root_name).unwrap();
                let b = domain::TargetId::try_parse(&format!("{}::{}", r, n.name), &root_name).unwrap();
                cases += 1;
                if a != b {
                    rep.violation("bare-and-qualified-spelling-differ", format!("{}\n{} vs {}", w.describe(), a, b), json!({"engine": "seqcheck", "check": "C19", "world": w.describe()}));
                }
                let cfg: ir::Config = w.to_yaml_config().into();
                if let Ok(m) = cfg.try_into_domain_targets(&[a.clone(), b.clone()]) {
                    let hits = m.keys().filter(|k| k.target_name == n.name && k.project_name == root_name).count();
                    if hits != 1 {
                        rep.violation("both-spellings-give-two-targets", format!("{}\nrequest [{}, {}] resolved {} entries for it", w.describe(), a, b, hits), json!({"engine": "seqcheck", "check": "C19", "world": w.describe()}));
                    }
                }
            }
        }
        // (3) spellings that must be refused
        for bad in ["a::nope", "zz::t", "t::t::t"] {
            cases += 1;
            let parsed = domain::TargetId::try_parse(bad, &root_name);
            if let Ok(id) = parsed {
                let cfg: ir::Config = w.to_yaml_config().into();
                if cfg.try_into_domain_targets(&[id]).is_ok() {
                    rep.violation("unknown-spelling-accepted", format!("{}\nrequest {:?} was resolved", w.describe(), bad), json!({"engine": "seqcheck", "check": "C19", "world": w.describe(), "spelling": bad}));
                }
            }
        }
        if root_name.is_none() {
            cases += 1;
            let id = domain::TargetId::try_parse("r::t", &root_name).unwrap();
            let cfg: ir::Config = w.to_yaml_config().into();
            if cfg.try_into_domain_targets(&[id]).is_ok() {
                rep.violation("qualified-name-of-unnamed-root-accepted", format!("{}\nrequest r::t was resolved although the root project has no name", w.describe()), json!({"engine": "seqcheck", "check": "C19", "world": w.describe()}));
            }
        }
            }));
        if r.is_err() {
            // a panic of the resolver on one world is a verdict about the resolver, not about this checker
            panicked_worlds += 1;
            rep.violation("C19/resolver-panicked", format!("{}\nresolving a spelling of a target of this world panicked", w.describe()), json!({"engine": "seqcheck", "check": "C19", "world": w.describe()}));
        }
    }
    rep.set("worlds_on_which_the_resolver_panicked", json!(panicked_worlds));
    if let Some(w) = worlds.get(worlds.len() / 2) {
        rep.push_sample(json!({"world": w.describe(), "checked": "offered names; every spelling -> identity -> closure; bare+qualified together; refused spellings"}));
    }
    rep.set("states", json!(distinct.len()));
    rep.set("transitions", json!(cases));
    rep.set("traces_validated_against_impl", json!(cases));
    rep.set("worlds", json!(worlds.len()));
    rep.set("exhaustive", json!(true));
    rep.set("bounds", json!({"projects": "root (unnamed / named r) + a + b-a", "targets": "t in every project, u in root and a", "reference_menu": "none, t, u, a::t, b-a::t, r::t, a::u.output, t.output, b-a::u, b-a::t.output on the first 3 (5 thorough) nodes"}));
}

/// C13, resolution half: every world with at least one `.output` reference (1-2 nodes exhaustively, the
/// two/three-project naming worlds) through the real resolver; `check_case` compares the effective input.
pub fn c13_resolution(rep: &mut Report) {
    let mut acc = Acc { worlds: 0, cases: 0, accepted: 0, rejected: 0, distinct: BTreeSet::new(), violations: BTreeMap::new(), sample: vec![] };
    let mut visit = |w: &WorldSpec| {
        if w.nodes.iter().any(|n| !n.outs.is_empty()) {
            run_world(w, &mut acc);
        }
    };
    worlds_n(1, 9, true, &mut visit);
    worlds_n(2, 9, true, &mut visit);
    worlds_n(3, 3, false, &mut visit);
    for w in naming_worlds(rep.thorough()) {
        visit(&w);
    }
    for (fp, (d, r)) in acc.violations {
        rep.violation(format!("resolution/{}", fp), d, r);
    }
    for s in acc.sample {
        rep.push_sample(s);
    }
    rep.add_u64("states", acc.distinct.len() as u64);
    rep.add_u64("transitions", acc.cases);
    rep.add_u64("resolver_cases_with_output_references", acc.cases);
    rep.add_u64("resolver_cases_expected_ok", acc.accepted);
}
