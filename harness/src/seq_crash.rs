//! C05: crash points of the build cycle, partial state writes, script outcomes, record corruptions.
use crate::report::Report;
use crate::seq_inc::{layouts, materialise, write_clocked, Layout, Scene};
use crate::sequtil::*;
use crate::world::*;
use serde_json::json;
use std::collections::{BTreeMap, BTreeSet};
use std::future::Future;
use std::path::{Path, PathBuf};
use std::pin::Pin;
use std::sync::atomic::{AtomicBool, Ordering};
use std::sync::{Arc, Mutex};
use std::task::{Context, Poll, Wake, Waker};
use zinoma::verif::{self, points, World};
use zinoma::verif_api::domain;
use zinoma::verif_api::engine::incremental::{self, IncrementalRunResult};
use zinoma::verif_api::engine::{build_target, BuildCancellationMessage};

struct TW {
    woken: AtomicBool,
    thread: std::thread::Thread,
}
impl Wake for TW {
    fn wake(self: Arc<Self>) {
        self.woken.store(true, Ordering::SeqCst);
        self.thread.unpark();
    }
}

#[derive(Clone, Copy, Debug, PartialEq, Eq, Hash, PartialOrd, Ord)]
pub enum Crash {
    Never,
    AtPoint(u8),
    ScriptRunning,
}

#[derive(Clone, Copy, Debug, PartialEq, Eq, Hash, PartialOrd, Ord)]
pub enum Outcome {
    Exit(i32),
    Signal(i32),
    LaunchFailure,
}

#[derive(Debug, Clone, PartialEq)]
pub enum CycleEnd {
    Crashed { at: String },
    Returned { result: String, spawned: bool },
}

fn build_target_of(sc: &Scene) -> domain::BuildTarget {
    domain::BuildTarget { metadata: sc.meta.clone(), build_script: ":".into(), input: sc.input.clone(), output: sc.output.clone() }
}

/// deterministic script effect: output := f(current input contents)
fn script_effect(sc: &Scene, l: &Layout) {
    let mut ins = String::new();
    for fr in &sc.input.files {
        for p in &fr.paths {
            let p = PathBuf::from(p.as_os_str().to_os_string());
            if p.is_file() {
                ins += &String::from_utf8_lossy(&std::fs::read(&p).unwrap_or_default());
            }
        }
    }
    for w in &l.writes {
        write_clocked(&sc.root.join(w), format!("built({})", ins).as_bytes());
    }
}

/// One build cycle of the real code (incremental::run around builder::build_target) driven on this thread.
pub fn run_cycle(sc: &Scene, l: &Layout, crash: Crash, outcome: Outcome, write_limit: Option<u64>) -> CycleEnd {
    let t = sc.meta.id.to_string();
    let mut knobs = Knobs { virtual_procs: true, virtual_watch: true, ..Default::default() };
    for p in [points::DECIDED, points::DELETED, points::SCRIPT_DONE, points::STATE_COMPUTED, points::SAVED] {
        knobs.armed.insert((t.clone(), p));
    }
    if outcome == Outcome::LaunchFailure {
        knobs.launch_fail.insert(t.clone());
    }
    if let Some(k) = write_limit {
        knobs.write_limit.insert(t.clone(), k);
    }
    let w = W::new(knobs);
    verif::install(Some(w.clone() as Arc<dyn World>));
    let bt = Box::new(build_target_of(sc));
    let bt: &'static domain::BuildTarget = Box::leak(bt); // the crashed future is forgotten with its borrows
    let (cancel_tx, cancel_rx) = async_std::channel::bounded::<BuildCancellationMessage>(1);
    let fut: Pin<Box<dyn Future<Output = anyhow::Result<IncrementalRunResult>>>> = Box::pin(async move { incremental::run(&bt.metadata, &bt.input, Some(&bt.output), build_target(bt, cancel_rx)).await });
    let mut fut = Some(fut);
    let tw = Arc::new(TW { woken: AtomicBool::new(true), thread: std::thread::current() });
    let waker = Waker::from(tw.clone());
    let mut waited = 0;
    let end = loop {
        if tw.woken.swap(false, Ordering::SeqCst) {
            let mut cx = Context::from_waker(&waker);
            if let Poll::Ready(r) = fut.as_mut().unwrap().as_mut().poll(&mut cx) {
                let spawned = !w.inner.lock().unwrap().children.is_empty();
                let result = match r {
                    Ok(IncrementalRunResult::Skipped) => "Skipped".to_string(),
                    Ok(IncrementalRunResult::Completed) => "Completed".to_string(),
                    Ok(IncrementalRunResult::Cancelled) => "Cancelled".to_string(),
                    Err(e) => format!("Err({:#})", e),
                };
                break CycleEnd::Returned { result, spawned };
            }
            waited = 0;
            continue;
        }
        // parked: where?
        let (at_point, child) = {
            let i = w.inner.lock().unwrap();
            (i.at_point.get(&t).map(|(p, g)| (*p, g.clone())), i.children.last().cloned())
        };
        if let Some((p, gate)) = at_point {
            if crash == Crash::AtPoint(p) {
                break CycleEnd::Crashed { at: format!("P{}", p) };
            }
            w.inner.lock().unwrap().at_point.remove(&t);
            gate.open();
            continue;
        }
        if let Some(c) = child {
            let waiting = {
                let c = c.lock().unwrap();
                c.info.status.is_none() && c.waker.is_some()
            };
            if waiting {
                if crash == Crash::ScriptRunning {
                    break CycleEnd::Crashed { at: "script running".into() };
                }
                // the script runs to its end: its effect, then its status
                script_effect(sc, l);
                let mut cs = c.lock().unwrap();
                cs.info.status = Some(match outcome {
                    Outcome::Exit(code) => code << 8,
                    Outcome::Signal(s) => s,
                    Outcome::LaunchFailure => unreachable!(),
                });
                if let Some(wk) = cs.waker.take() {
                    wk.wake()
                }
                continue;
            }
        }
        // internal I/O on the blocking pool: wait for its wake-up
        std::thread::park_timeout(std::time::Duration::from_millis(50));
        waited += 1;
        if waited > 400 {
            panic!("MACHINERY: build cycle neither progressed nor parked at a known place for 20 s");
        }
    };
    if let CycleEnd::Crashed { .. } = end {
        // zinoma dies: nothing of the cycle runs again, no destructor tidies up
        std::mem::forget(fut.take());
    }
    drop(fut);
    drop(cancel_tx);
    verif::install(None);
    end
}

pub fn record_bytes(sc: &Scene) -> Option<Vec<u8>> {
    std::fs::read(&sc.rec).ok()
}

fn h64<T: std::hash::Hash>(t: &T) -> u64 {
    use std::hash::Hasher;
    let mut h = std::collections::hash_map::DefaultHasher::new();
    t.hash(&mut h);
    h.finish()
}

#[derive(Clone, Copy, Debug, PartialEq, Eq, Hash, PartialOrd, Ord)]
enum Start {
    NoRecord,
    RecordThenInputChanged,
    RecordThenOutputDeleted,
    /// a valid record exists; during the faulty cycle an input command cannot run (its state cannot be computed);
    /// afterwards the tree is put back exactly as recorded
    RecordThenInputCommandBroken,
}

fn prepare(l: &Layout, root: &Path, start: Start) -> Scene {
    let sc = materialise(l, root);
    if start != Start::NoRecord {
        let e = run_cycle(&sc, l, Crash::Never, Outcome::Exit(0), None);
        assert_eq!(e, CycleEnd::Returned { result: "Completed".into(), spawned: true }, "preparing a valid record");
        assert!(sc.rec.is_file(), "a valid record exists");
        match start {
            Start::RecordThenInputChanged => {
                let f = if l.name == "cmd-only" { "v.txt" } else { "src/a.txt" };
                write_clocked(&root.join(f), b"changed before the crash");
            }
            Start::RecordThenOutputDeleted => {
                std::fs::remove_file(root.join(l.writes[0])).unwrap();
            }
            Start::RecordThenInputCommandBroken => {
                std::fs::rename(root.join("v.txt"), root.join("v.txt.away")).unwrap();
            }
            Start::NoRecord => {}
        }
    }
    sc
}

/// (A) crash points x outcomes x starting states
pub fn crash_points(rep: &mut Report) {
    let ls: Vec<Layout> = layouts().into_iter().filter(|l| ["file-path", "directory", "file+cmd", "cmd-only"].contains(&l.name)).collect();
    let starts = [Start::NoRecord, Start::RecordThenInputChanged, Start::RecordThenOutputDeleted, Start::RecordThenInputCommandBroken];
    let mut jobs: Vec<(Layout, Start)> = vec![];
    for l in &ls {
        for s in starts {
            if s == Start::RecordThenInputCommandBroken && !["file+cmd", "cmd-only"].contains(&l.name) {
                continue;
            }
            jobs.push((l.clone(), s));
        }
    }
    struct Out {
        cases: u64,
        must_rebuild: u64,
        may_skip_and_skipped: u64,
        distinct: BTreeSet<u64>,
        violations: Vec<(String, String, serde_json::Value)>,
        sample: Option<serde_json::Value>,
    }
    let thorough = rep.thorough();
    let outs: Vec<Out> = crate::explore::par_map(&jobs, 12, |(l, start)| {
        let mut o = Out { cases: 0, must_rebuild: 0, may_skip_and_skipped: 0, distinct: BTreeSet::new(), violations: vec![], sample: None };
        // length of a complete record for this scene (to enumerate every partial write)
        let tagl = layouts().iter().position(|x| x.name == l.name).unwrap();
        let tags = *start as usize;
        let probe_root = scratch(&format!("c05-a-{:02}-{}-pppp", tagl, tags));
        let probe = prepare(l, &probe_root, *start);
        let _ = run_cycle(&probe, l, Crash::Never, Outcome::Exit(0), None);
        let full_len = record_bytes(&probe).map(|b| b.len()).unwrap_or(0) as u64;
        let _ = std::fs::remove_dir_all(&probe_root);
        let mut cases: Vec<(Crash, Outcome, Option<u64>)> = vec![];
        for c in [Crash::AtPoint(points::DECIDED), Crash::AtPoint(points::DELETED), Crash::ScriptRunning, Crash::AtPoint(points::SCRIPT_DONE), Crash::AtPoint(points::STATE_COMPUTED)] {
            cases.push((c, Outcome::Exit(0), None));
        }
        // every partial write: the process dies after k bytes of the record reached the file
        let step = if thorough || full_len <= 400 { 1 } else { 3 };
        let mut k = 0;
        while k <= full_len {
            cases.push((Crash::AtPoint(points::SAVED), Outcome::Exit(0), Some(k)));
            k += step;
        }
        cases.push((Crash::AtPoint(points::SAVED), Outcome::Exit(0), None));
        for oc in [Outcome::Exit(0), Outcome::Exit(1), Outcome::Exit(255), Outcome::Signal(9), Outcome::Signal(15), Outcome::LaunchFailure] {
            cases.push((Crash::Never, oc, None));
        }
        for (ci, (crash, outcome, limit)) in cases.iter().enumerate() {
            if *start == Start::RecordThenInputCommandBroken && *crash == Crash::AtPoint(points::DECIDED) {
                // nothing has been discarded yet and the tree is put back as recorded: skipping is right then (C03)
                continue;
            }
            let root = scratch(&format!("c05-a-{:02}-{}-{:04}", tagl, tags, ci));
            let sc = prepare(l, &root, *start);
            let had_record = sc.rec.is_file();
            let end = run_cycle(&sc, l, *crash, *outcome, *limit);
            if *start == Start::RecordThenInputCommandBroken {
                std::fs::rename(root.join("v.txt.away"), root.join("v.txt")).unwrap();
            }
            let rec_after = record_bytes(&sc).map(|b| b.len());
            // the cycle must have decided to run (scope of the property); otherwise the set-up is wrong
            let decided_to_run = match &end {
                CycleEnd::Crashed { .. } => true,
                CycleEnd::Returned { result, spawned } => *spawned || result.starts_with("Err") || *outcome == Outcome::LaunchFailure,
            };
            o.cases += 1;
            if !decided_to_run {
                o.violations.push(("machinery:cycle-did-not-run".into(), format!("set-up error: cycle ended {:?} without deciding to run (layout {}, start {:?})", end, l.name, start), json!({})));
                continue;
            }
            let complete = *crash == Crash::Never && *outcome == Outcome::Exit(0) || (*crash == Crash::AtPoint(points::SAVED) && limit.map(|k| k >= full_len).unwrap_or(true) && *outcome == Outcome::Exit(0));
            // next invocation: a fresh zinoma on the same tree
            let next = std::panic::catch_unwind(std::panic::AssertUnwindSafe(|| run_cycle(&sc, l, Crash::Never, Outcome::Exit(0), None)));
            let desc = format!("layout={} start={:?} crash={:?} outcome={:?} partial_write={:?} (record had {} / {:?} bytes before/after, full={})", l.name, start, crash, outcome, limit, if had_record { "some" } else { "no" }, rec_after, full_len);
            o.distinct.insert(h64(&(l.name, start, crash, outcome, limit)));
            let replay = json!({"engine": "seqcheck", "check": "C05-crash", "layout": l.name, "start": format!("{:?}", start), "crash": format!("{:?}", crash), "outcome": format!("{:?}", outcome), "partial_write_bytes": limit});
            match next {
                Err(_) => o.violations.push((format!("next-invocation-panicked: crash={:?}", crash), desc.clone(), replay)),
                Ok(CycleEnd::Returned { result, spawned }) => {
                    if result.starts_with("Err") {
                        o.violations.push((format!("next-invocation-error: crash={:?}", crash), format!("{}\nnext invocation returned {}", desc, result), replay));
                    } else if !complete {
                        o.must_rebuild += 1;
                        if !spawned || result == "Skipped" {
                            let what = match (crash, outcome, limit) {
                                (Crash::Never, oc, _) => format!("outcome {:?}", oc),
                                (Crash::AtPoint(p), _, Some(_)) if *p == points::SAVED => "partial state write".to_string(),
                                (c, _, _) => format!("{:?}", c),
                            };
                            o.violations.push((format!("remembered-as-done-after: {} [start={:?}]", what, start), format!("{}\nthe next invocation skipped the target ({})", desc, result), replay));
                        }
                    } else if result == "Skipped" {
                        o.may_skip_and_skipped += 1;
                    }
                    if o.sample.is_none() && !complete {
                        o.sample = Some(json!({"case": desc, "next_invocation": result}));
                    }
                }
                Ok(other) => o.violations.push(("machinery:next-cycle-crashed".into(), format!("{:?}", other), json!({}))),
            }
            let _ = std::fs::remove_dir_all(&root);
        }
        o
    });
    let mut distinct = BTreeSet::new();
    for o in outs {
        rep.add_u64("evaluations", o.cases);
        rep.add_u64("crash_or_failure_cases_that_must_rebuild", o.must_rebuild);
        rep.add_u64("complete_cycles_then_skipped", o.may_skip_and_skipped);
        distinct.extend(o.distinct);
        for (fp, d, r) in o.violations {
            if fp.starts_with("machinery:") {
                rep.machinery_errors.push(format!("{}: {}", fp, d));
            } else {
                rep.violation(fp, d, r);
            }
        }
        if let Some(s) = o.sample {
            rep.push_sample(s);
        }
    }
    rep.add_u64("distinct_nontrivial", distinct.len() as u64);
}

// ---------------------------------------------------------------------------------------
// (B) corruptions of the record, isolated in worker subprocesses

#[derive(Clone, Debug)]
pub enum Corruption {
    Prefix(usize),
    Byte(usize, u8),
    Empty,
    Text,
    Directory,
    OtherTargetsRecord,
    TrailingBytes,
    HugeLength(usize, u64),
}

/// enumerate corruption cases for a record of `len` bytes
pub fn corruptions(len: usize, thorough: bool) -> Vec<Corruption> {
    let mut v = vec![];
    for k in 0..len {
        v.push(Corruption::Prefix(k));
    }
    let stride = if thorough { 1 } else { 1 };
    let mut i = 0;
    while i < len {
        for val in [0u8, 1, 2, 3] {
            v.push(Corruption::Byte(i, val));
        }
        i += stride;
    }
    // (a directory in place of the record is not a "state file": outside the statement, not enumerated)
    v.extend(vec![Corruption::Empty, Corruption::Text, Corruption::OtherTargetsRecord, Corruption::TrailingBytes]);
    // every 8-byte aligned position could be a length prefix: claim 2^40 and 2^63 elements
    let mut off = 0;
    while off + 8 <= len {
        v.push(Corruption::HugeLength(off, 1 << 40));
        v.push(Corruption::HugeLength(off, 1 << 63));
        off += 8;
    }
    v
}

fn apply_corruption(rec: &Path, orig: &[u8], c: &Corruption, other: &[u8]) {
    let _ = std::fs::remove_file(rec);
    let _ = std::fs::remove_dir_all(rec);
    match c {
        Corruption::Prefix(k) => std::fs::write(rec, &orig[..*k]).unwrap(),
        Corruption::Byte(i, val) => {
            let mut b = orig.to_vec();
            b[*i] = match val {
                0 => 0x00,
                1 => 0xFF,
                2 => b[*i] ^ 0x01,
                _ => b[*i] ^ 0x80,
            };
            std::fs::write(rec, &b).unwrap()
        }
        Corruption::Empty => std::fs::write(rec, b"").unwrap(),
        Corruption::Text => std::fs::write(rec, b"this is not a checksums file\n").unwrap(),
        Corruption::Directory => std::fs::create_dir_all(rec).unwrap(),
        Corruption::OtherTargetsRecord => std::fs::write(rec, other).unwrap(),
        Corruption::TrailingBytes => {
            let mut b = orig.to_vec();
            b.extend_from_slice(b"trailing garbage");
            std::fs::write(rec, &b).unwrap()
        }
        Corruption::HugeLength(off, n) => {
            let mut b = orig.to_vec();
            b[*off..*off + 8].copy_from_slice(&n.to_le_bytes());
            std::fs::write(rec, &b).unwrap()
        }
    }
}

const CORRUPTION_LAYOUTS: [&str; 2] = ["file-path", "file+cmd"];

/// number of worker cases: for each layout, corruptions x {tree unchanged, tree changed}
/// third component: 0 = tree unchanged, 1 = an input changed, 2 = the output deleted (after the corruption)
pub fn corruption_space(thorough: bool) -> Vec<(usize, usize, u8)> {
    let mut v = vec![];
    for (li, name) in CORRUPTION_LAYOUTS.iter().enumerate() {
        let l = layouts().into_iter().find(|l| l.name == *name).unwrap();
        let _ = name;
        let root = scratch(&format!("c05-w-{:07}", 9_000_000 + li));
        let sc = materialise(&l, &root);
        let _ = run_cycle(&sc, &l, Crash::Never, Outcome::Exit(0), None);
        let len = record_bytes(&sc).expect("record").len();
        let _ = std::fs::remove_dir_all(&root);
        for ci in 0..corruptions(len, thorough).len() {
            v.push((li, ci, 0));
            v.push((li, ci, 1));
            v.push((li, ci, 2));
        }
    }
    v
}

static PANIC_MSG: Mutex<Option<String>> = Mutex::new(None);

/// worker: evaluates cases [start, end) of `corruption_space`
pub fn worker(thorough: bool, start: usize, end: usize) {
    // a corrupted length prefix must fail fast (allocation error => abort => attributed to the case),
    // not eat the machine's memory
    unsafe {
        let lim = libc::rlimit { rlim_cur: 6 << 30, rlim_max: 6 << 30 };
        libc::setrlimit(libc::RLIMIT_AS, &lim);
    }
    std::panic::set_hook(Box::new(|info| {
        let msg = format!("{}", info);
        let mut g = PANIC_MSG.lock().unwrap();
        if g.is_none() {
            *g = Some(msg.replace('\n', " "));
        }
    }));
    let space = corruption_space(thorough);
    let ls = layouts();
    for idx in start..end.min(space.len()) {
        let (li, ci, changed) = space[idx];
        let l = ls.iter().find(|l| l.name == CORRUPTION_LAYOUTS[li]).unwrap().clone();
        emit_case(idx);
        *PANIC_MSG.lock().unwrap() = None;
        let (tx, rx) = std::sync::mpsc::channel();
        let l2 = l.clone();
        let handle = std::thread::spawn(move || {
            let root = scratch(&format!("c05-w-{:07}", idx));
            let sc = materialise(&l2, &root);
            let e = run_cycle(&sc, &l2, Crash::Never, Outcome::Exit(0), None);
            assert!(matches!(e, CycleEnd::Returned { ref result, .. } if result == "Completed"));
            let orig = record_bytes(&sc).expect("record");
            // another target's valid record: same layout, different input content
            let other = {
                let r2 = scratch(&format!("c05-o-{:07}", idx));
                let sc2 = materialise(&l2, &r2);
                write_clocked(&r2.join("src/a.txt"), b"another target's input, longer than the first one");
                let _ = run_cycle(&sc2, &l2, Crash::Never, Outcome::Exit(0), None);
                let b = record_bytes(&sc2).unwrap_or_default();
                let _ = std::fs::remove_dir_all(&r2);
                b
            };
            let c = corruptions(orig.len(), thorough)[ci].clone();
            apply_corruption(&sc.rec, &orig, &c, &other);
            if changed == 1 {
                write_clocked(&root.join("src/a.txt"), b"input changed after the record was written");
            }
            if changed == 2 {
                let _ = std::fs::remove_file(root.join(l2.writes[0]));
            }
            let next = run_cycle(&sc, &l2, Crash::Never, Outcome::Exit(0), None);
            let _ = std::fs::remove_dir_all(&root);
            let _ = tx.send((format!("{:?}", c), next));
        });
        let t0 = std::time::Instant::now();
        let verdict = loop {
            match rx.recv_timeout(std::time::Duration::from_millis(20)) {
                Ok((c, CycleEnd::Returned { result, spawned })) => {
                    let _ = handle.join();
                    if result.starts_with("Err") {
                        break ("ERROR".to_string(), format!("corruption {} (tree variant {}): the next invocation returned {}", c, changed, result));
                    } else if changed != 0 && (!spawned || result == "Skipped") {
                        break ("SKIPPED-CHANGED".to_string(), format!("corruption {} with {}: the next invocation skipped the target", c, if changed == 1 { "a changed input" } else { "the declared output deleted" }));
                    } else {
                        break ("OK".to_string(), format!("{} -> {}", c, result));
                    }
                }
                Ok((c, other)) => break ("MACHINERY".to_string(), format!("{} {:?}", c, other)),
                Err(std::sync::mpsc::RecvTimeoutError::Timeout) => {
                    // a panic inside the blocking pool leaves the awaiting future pending for ever:
                    // the verdict comes from the captured panic, never from the time-out alone
                    let p = PANIC_MSG.lock().unwrap().clone();
                    if let Some(msg) = p {
                        if t0.elapsed() > std::time::Duration::from_millis(300) {
                            break ("PANIC".to_string(), format!("a panic was raised while reading the record and the invocation never completed (zinoma would hang): {}", msg));
                        }
                    }
                    if t0.elapsed() > std::time::Duration::from_secs(30) {
                        break ("MACHINERY".to_string(), "case neither finished nor panicked within 30 s".to_string());
                    }
                }
                Err(std::sync::mpsc::RecvTimeoutError::Disconnected) => {
                    let p = PANIC_MSG.lock().unwrap().clone();
                    break ("PANIC".to_string(), format!("the invocation panicked: {}", p.unwrap_or_default()));
                }
            }
        };
        // a case that panicked leaves a parked thread and a poisoned world behind: restart the worker
        let restart = verdict.0 == "PANIC";
        emit_res(idx, &verdict.0, &verdict.1);
        if restart {
            std::process::exit(0);
        }
    }
    emit_done();
}

pub fn corruptions_check(rep: &mut Report) {
    let thorough = rep.thorough();
    let space = corruption_space(thorough);
    let res = run_isolated("c05", &rep.tier.clone(), space.len(), 16, &[]);
    let mut ok = 0u64;
    let mut seen = BTreeSet::new();
    let mut by_class: BTreeMap<String, (String, serde_json::Value)> = BTreeMap::new();
    for r in &res {
        if r.verdict == "RANGE-ABANDONED" {
            continue;
        }
        seen.insert(r.idx);
        let (li, ci, changed) = space.get(r.idx).cloned().unwrap_or((0, 0, 0));
        let class = |d: &str| -> String {
            // corruption kind without its offset
            d.split("corruption ").nth(1).map(|s| s.split('(').next().unwrap_or("").to_string()).unwrap_or_default()
        };
        let replay = json!({"engine": "seqcheck", "check": "C05-corruption", "layout": CORRUPTION_LAYOUTS[li], "corruption_index": ci, "tree_changed": changed, "detail": r.detail});
        match r.verdict.as_str() {
            "OK" => ok += 1,
            "DIED" => {
                by_class.entry("record-read-aborts-the-process".to_string()).or_insert((format!("case {} (layout {}, corruption #{}, tree changed {}): {}", r.idx, CORRUPTION_LAYOUTS[li], ci, changed, r.detail), replay));
            }
            "PANIC" => {
                by_class.entry("record-read-panics-or-hangs".to_string()).or_insert((r.detail.clone(), replay));
            }
            "ERROR" => {
                by_class.entry(format!("corrupted-record-is-an-error: {}", class(&r.detail))).or_insert((r.detail.clone(), replay));
            }
            "SKIPPED-CHANGED" => {
                by_class.entry(format!("corrupted-record-skips-a-changed-target: {}", class(&r.detail))).or_insert((r.detail.clone(), replay));
            }
            _ => rep.machinery_errors.push(format!("corruption case {}: {} {}", r.idx, r.verdict, r.detail)),
        }
    }
    if seen.len() != space.len() && !res.iter().any(|r| r.verdict == "DIED") {
        rep.machinery_errors.push(format!("only {} of {} corruption cases reported", seen.len(), space.len()));
    }
    for (fp, (d, r)) in by_class {
        rep.violation(fp, d, r);
    }
    rep.add_u64("evaluations", space.len() as u64);
    rep.add_u64("corruption_cases", space.len() as u64);
    rep.add_u64("corruption_cases_ok", ok);
    rep.add_u64("distinct_nontrivial", space.len() as u64);
    if let Some(r) = res.iter().find(|r| r.verdict == "OK" && r.detail.contains("Byte")) {
        rep.push_sample(json!({"corruption_case": r.detail}));
    }
}

pub fn check_c05(rep: &mut Report) {
    crash_points(rep);
    corruptions_check(rep);
    // interruption by a termination signal, through the real actor (E1): at every state of every schedule
    // a record on disk implies that the target's last cycle ran its script to a zero exit
    crate::e1::check_phases(rep, "signal interruption through the actor: real incremental runner, every phase a parking point, signal at every state", false);
    let n = rep.coverage.get("executions").and_then(|v| v.as_u64()).unwrap_or(0);
    rep.add_u64("evaluations", n);
    let st = rep.coverage.get("states").and_then(|v| v.as_u64()).unwrap_or(0);
    rep.add_u64("distinct_nontrivial", st);
    rep.set("exhaustive", json!(true));
    rep.set("rule", json!("cases = (layout, starting state, crash point | partial write of k bytes for every k | script outcome) and (layout, record corruption, tree changed?); each case runs the real build cycle up to the crash, forgets it, and runs a fresh invocation on the same tree; distinct = distinct case descriptors"));
    rep.set("bounds", json!({"crash_points": "P0 decided, P1 old record deleted, script running, P3 script done, P4 state computed, P5.k after k bytes for every k, P6 saved", "outcomes": "exit 0/1/255, signal 9/15, launch failure", "starting_states": "no record; record then input changed; record then output deleted (script re-creates identical content)", "layouts": ["file-path", "directory", "file+cmd", "cmd-only"], "corruptions": "every prefix, every byte x {0x00,0xFF,^0x01,^0x80}, empty, text, directory, another target's record, trailing bytes, length prefixes 2^40 and 2^63 at every 8-byte offset; each with the tree unchanged, an input changed, the output deleted"}));
    rep.assumptions.push("a crash = the cycle future is never polled again and is mem::forget-ed; a fresh invocation then runs on the same tree".into());
    rep.assumptions.push("signal interruption through the actor (termination message while points are armed) is explored by the C06/C10 engine, see DESIGN".into());
}
