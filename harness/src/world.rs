//! The harness side of the `zinoma::verif::World` seams: gates, virtual children, pumps.
use std::collections::{BTreeMap, BTreeSet, VecDeque};
use std::io;
use std::os::unix::process::ExitStatusExt;
use std::pin::Pin;
use std::process::ExitStatus;
use std::sync::atomic::{AtomicBool, Ordering};
use std::sync::{Arc, Mutex};
use std::task::{Context, Poll, Waker};
use zinoma::verif::{BoxFut, ProcKind, Slot, VChild, World};
use zinoma::verif_api::domain::TargetId;

pub struct Gate {
    open: AtomicBool,
    waker: Mutex<Option<Waker>>,
}
impl Gate {
    pub fn new() -> Arc<Gate> {
        Arc::new(Gate { open: AtomicBool::new(false), waker: Mutex::new(None) })
    }
    pub fn open(&self) {
        self.open.store(true, Ordering::SeqCst);
        if let Some(w) = self.waker.lock().unwrap().take() {
            w.wake()
        }
    }
}
pub struct GateFut(pub Arc<Gate>);
impl std::future::Future for GateFut {
    type Output = ();
    fn poll(self: Pin<&mut Self>, cx: &mut Context<'_>) -> Poll<()> {
        if self.0.open.load(Ordering::SeqCst) {
            Poll::Ready(())
        } else {
            *self.0.waker.lock().unwrap() = Some(cx.waker().clone());
            if self.0.open.load(Ordering::SeqCst) {
                return Poll::Ready(());
            }
            Poll::Pending
        }
    }
}

#[derive(Debug, Clone, PartialEq, Eq, Hash)]
pub struct ChildInfo {
    pub idx: usize,
    pub target: String,
    pub service: bool,
    /// raw wait status once the child ended (exit code << 8, or signal number)
    pub status: Option<i32>,
    pub killed: bool,
    pub reaped: bool,
    /// index in the event log of the spawn
    pub spawn_ev: usize,
}
pub struct ChildState {
    pub info: ChildInfo,
    pub waker: Option<Waker>,
}
pub struct VC(pub Arc<Mutex<ChildState>>, pub Arc<Mutex<Inner>>);
impl VChild for VC {
    fn kill(&self) -> io::Result<()> {
        let (idx, target) = {
            let mut s = self.0.lock().unwrap();
            s.info.killed = true;
            if s.info.status.is_none() {
                s.info.status = Some(9);
            }
            if let Some(w) = s.waker.take() {
                w.wake()
            }
            (s.info.idx, s.info.target.clone())
        };
        self.1.lock().unwrap().events.push(Ev::Kill { t: target, child: idx });
        Ok(())
    }
    fn status(&self) -> BoxFut<io::Result<ExitStatus>> {
        let st = self.0.clone();
        let inner = self.1.clone();
        Box::pin(std::future::poll_fn(move |cx| {
            let mut s = st.lock().unwrap();
            match s.info.status {
                Some(raw) => {
                    if !s.info.reaped {
                        s.info.reaped = true;
                        let (t, child) = (s.info.target.clone(), s.info.idx);
                        drop(s);
                        inner.lock().unwrap().events.push(Ev::Reap { t, child });
                    }
                    Poll::Ready(Ok(ExitStatus::from_raw(raw)))
                }
                None => {
                    s.waker = Some(cx.waker().clone());
                    Poll::Pending
                }
            }
        }))
    }
}

/// What the harness observed, in global order (monitors read this).
#[derive(Debug, Clone, PartialEq, Eq)]
pub enum Ev {
    Launch { t: String },
    Spawn { t: String, child: usize, service: bool },
    SpawnFail { t: String },
    Finish { t: String, child: usize, code: i32 },
    Kill { t: String, child: usize },
    Reap { t: String, child: usize },
    Consume { t: String, slot: Slot, desc: String },
    SendGranted { t: String },
    Sent { t: String, closed: bool },
    Relayed { dest: String, desc: String },
    Sigterm,
    SigtermConsumed,
    RunReturned { result: Result<(), String> },
    MainDone,
    ActorDone { t: String },
    Change { file: usize, version: u32 },
    Notify { t: String, delivered: bool, file: Option<usize> },
    Point { t: String, p: u8 },
    Release { t: String, p: u8 },
    Effect { t: String, wrote: String },
}

pub struct Pump {
    pub pump: Box<dyn FnMut() -> Option<String> + Send>,
    pub len: Box<dyn Fn() -> usize + Send>,
}

/// Static behaviour knobs of one world (one execution).
#[derive(Clone, Debug, Default)]
pub struct Knobs {
    pub inbox_cap: Option<usize>,
    pub bypass: bool,
    pub virtual_watch: bool,
    pub virtual_procs: bool,
    pub launch_fail: BTreeSet<String>,
    /// points at which targets park (target, point)
    pub armed: BTreeSet<(String, u8)>,
    pub write_limit: BTreeMap<String, u64>,
    /// true: fan-outs iterate requesters in descending order instead of ascending
    pub desc_order: bool,
    /// send gates are granted automatically (handler-level granularity)
    pub coarse: bool,
}

#[derive(Default)]
pub struct Inner {
    pub new_tasks: Vec<(String, BoxFut<()>, Arc<Gate>)>,
    pub pumps: BTreeMap<(String, Slot), Pump>,
    pub send_gate: BTreeMap<String, Arc<Gate>>,
    pub sending: BTreeSet<String>,
    pub at_point: BTreeMap<String, (u8, Arc<Gate>)>,
    pub busy: BTreeSet<String>,
    pub children: Vec<Arc<Mutex<ChildState>>>,
    pub hist: BTreeMap<String, Vec<String>>,
    /// rolling hash of each actor's history (kept in step with `hist`)
    pub hist_hash: BTreeMap<String, (u64, u64)>,
    pub events: Vec<Ev>,
    pub notifiers: BTreeMap<String, Box<dyn Fn() -> bool + Send>>,
    /// senders of the messages that entered the output queue and were not relayed yet
    pub q_senders: VecDeque<String>,
    /// hook called at each virtual spawn (lets the system snapshot input files)
    pub spawn_seq: u64,
}

pub struct W {
    pub inner: Arc<Mutex<Inner>>,
    pub knobs: Knobs,
    pub q_closed: Arc<AtomicBool>,
}

impl Inner {
    pub fn push_hist(&mut self, a: &str, entry: String) {
        use std::hash::{Hash, Hasher};
        let h = self.hist_hash.entry(a.to_string()).or_insert((0x51_7c_c1_b7_27_22_0a_95, 0x9e37_79b9_7f4a_7c15));
        let mut h1 = std::collections::hash_map::DefaultHasher::new();
        h.0.hash(&mut h1);
        entry.hash(&mut h1);
        let mut h2 = std::collections::hash_map::DefaultHasher::new();
        h.1.hash(&mut h2);
        entry.hash(&mut h2);
        0xabcdu16.hash(&mut h2);
        *h = (h1.finish(), h2.finish());
        self.hist.entry(a.to_string()).or_default().push(entry);
    }
}

impl W {
    pub fn new(knobs: Knobs) -> Arc<W> {
        Arc::new(W { inner: Arc::new(Mutex::new(Inner::default())), knobs, q_closed: Arc::new(AtomicBool::new(false)) })
    }
    pub fn last_child_of(inner: &Inner, t: &str) -> Option<Arc<Mutex<ChildState>>> {
        inner.children.iter().rev().find(|c| c.lock().unwrap().info.target == t).cloned()
    }
}

impl World for W {
    fn spawn_actor(&self, id: &TargetId, fut: BoxFut<()>) -> BoxFut<()> {
        let done = Gate::new();
        let mut i = self.inner.lock().unwrap();
        i.new_tasks.push((id.to_string(), fut, done.clone()));
        i.events.push(Ev::Launch { t: id.to_string() });
        Box::pin(GateFut(done))
    }
    fn register_pump(
        &self,
        id: &TargetId,
        slot: Slot,
        pump: Box<dyn FnMut() -> Option<String> + Send>,
        len: Box<dyn Fn() -> usize + Send>,
    ) {
        self.inner.lock().unwrap().pumps.insert((id.to_string(), slot), Pump { pump, len });
    }
    fn before_send(&self, id: &TargetId) -> BoxFut<()> {
        if self.knobs.coarse {
            let mut i = self.inner.lock().unwrap();
            i.sending.insert(id.to_string());
            i.push_hist(&id.to_string(), "send".into());
            i.events.push(Ev::SendGranted { t: id.to_string() });
            return Box::pin(std::future::ready(()));
        }
        let g = Gate::new();
        self.inner.lock().unwrap().send_gate.insert(id.to_string(), g.clone());
        Box::pin(GateFut(g))
    }
    fn after_send(&self, id: &TargetId) {
        let closed = self.q_closed.load(Ordering::SeqCst);
        let mut i = self.inner.lock().unwrap();
        i.sending.remove(&id.to_string());
        if !closed {
            i.q_senders.push_back(id.to_string());
        }
        i.events.push(Ev::Sent { t: id.to_string(), closed });
    }
    fn spawn_child(&self, id: &TargetId, kind: ProcKind) -> Option<io::Result<Arc<dyn VChild>>> {
        if !self.knobs.virtual_procs {
            return None;
        }
        let t = id.to_string();
        let mut i = self.inner.lock().unwrap();
        if self.knobs.launch_fail.contains(&t) {
            i.push_hist(&t.clone(), "spawnfail".into());
            i.events.push(Ev::SpawnFail { t });
            return Some(Err(io::Error::new(io::ErrorKind::NotFound, "verif: cannot launch")));
        }
        let idx = i.children.len();
        let spawn_ev = i.events.len();
        let service = kind == ProcKind::Service;
        let st = Arc::new(Mutex::new(ChildState {
            info: ChildInfo { idx, target: t.clone(), service, status: None, killed: false, reaped: false, spawn_ev },
            waker: None,
        }));
        i.children.push(st.clone());
        i.push_hist(&t.clone(), "spawn".into());
        i.events.push(Ev::Spawn { t, child: idx, service });
        i.spawn_seq += 1;
        Some(Ok(Arc::new(VC(st, self.inner.clone()))))
    }
    fn busy(&self, id: &TargetId, on: bool) {
        let mut i = self.inner.lock().unwrap();
        if on {
            i.busy.insert(id.to_string());
        } else {
            i.busy.remove(&id.to_string());
        }
    }
    fn point(&self, id: &TargetId, point: u8) -> BoxFut<()> {
        let t = id.to_string();
        if self.knobs.armed.contains(&(t.clone(), point)) {
            let g = Gate::new();
            let mut i = self.inner.lock().unwrap();
            i.at_point.insert(t.clone(), (point, g.clone()));
            i.push_hist(&t.clone(), format!("point{}", point));
            i.events.push(Ev::Point { t, p: point });
            Box::pin(GateFut(g))
        } else {
            Box::pin(std::future::ready(()))
        }
    }
    fn inbox_cap(&self) -> Option<usize> {
        self.knobs.inbox_cap
    }
    fn virtual_watch(&self) -> bool {
        self.knobs.virtual_watch
    }
    fn register_notifier(&self, id: &TargetId, n: Box<dyn Fn() -> bool + Send>) {
        self.inner.lock().unwrap().notifiers.insert(id.to_string(), n);
    }
    fn bypass_incremental(&self) -> bool {
        self.knobs.bypass
    }
    fn write_limit(&self, id: &TargetId) -> Option<u64> {
        self.knobs.write_limit.get(&id.to_string()).cloned()
    }
    fn requester_order(&self, _id: &TargetId, requesters: &[String]) -> Vec<usize> {
        let mut v: Vec<usize> = (0..requesters.len()).collect();
        if self.knobs.desc_order {
            v.reverse();
        }
        v
    }
}
