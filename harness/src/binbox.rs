//! E3 `binbox`: deterministic replays against the real binary built from /repo's working tree
//! (hooks compiled in, no harness installed). C12 and C18 are decided here.
use crate::report::Report;
use crate::sequtil::*;
use serde_json::json;
use std::collections::{BTreeMap, BTreeSet};
use std::path::{Path, PathBuf};
use std::process::{Command, Stdio};
use std::time::{Duration, Instant};

pub fn zinoma_bin() -> PathBuf {
    crate::report::verif_path("build/target-bin/release/zinoma")
}

#[derive(Debug, Clone)]
pub struct RunOut {
    pub code: Option<i32>,
    pub stdout: String,
    pub stderr: String,
    pub timed_out: bool,
}

/// run the real binary with a bounded wait (a time-out is reported as such, never silently)
pub fn run_zinoma(cwd: &Path, args: &[&str], timeout: Duration) -> RunOut {
    let mut child = Command::new(zinoma_bin()).args(args).current_dir(cwd).stdin(Stdio::null()).stdout(Stdio::piped()).stderr(Stdio::piped()).env("ZV_MARKER", "1").spawn().expect("spawn zinoma");
    let mut out = child.stdout.take().unwrap();
    let mut err = child.stderr.take().unwrap();
    let ho = std::thread::spawn(move || {
        let mut s = String::new();
        let _ = std::io::Read::read_to_string(&mut out, &mut s);
        s
    });
    let he = std::thread::spawn(move || {
        let mut s = String::new();
        let _ = std::io::Read::read_to_string(&mut err, &mut s);
        s
    });
    let t0 = Instant::now();
    let mut timed_out = false;
    let status = loop {
        match child.try_wait().expect("wait") {
            Some(s) => break Some(s),
            None => {
                if t0.elapsed() > timeout {
                    let _ = child.kill();
                    let _ = child.wait();
                    timed_out = true;
                    break None;
                }
                std::thread::sleep(Duration::from_micros(500));
            }
        }
    };
    // a script outliving a killed zinoma keeps the pipes open: never join the readers of a timed-out run
    if timed_out {
        return RunOut { code: None, stdout: String::new(), stderr: "<timed out>".into(), timed_out };
    }
    RunOut { code: status.and_then(|s| s.code()), stdout: ho.join().unwrap_or_default(), stderr: he.join().unwrap_or_default(), timed_out }
}

fn read_trace(p: &Path) -> Vec<String> {
    std::fs::read_to_string(p).unwrap_or_default().lines().map(|s| s.to_string()).collect()
}

// ---------------------------------------------------------------------------------------
// C12

const OUT_ENTRIES: [&str; 6] = ["out/x.o", "out/y.txt", "out/sub/z.o", "out/.zinoma/k.o", "out/dlink", "out/flink.o"];

pub fn output_decls() -> Vec<(&'static str, &'static str)> {
    vec![
        ("[out]", "[{paths: [out]}]"),
        ("[out]+[o]", "[{paths: [out], extensions: [o]}]"),
        ("[out/x.o]", "[{paths: [out/x.o]}]"),
        ("[out, missing]", "[{paths: [out, missing]}]"),
        ("[out]+[o,txt]", "[{paths: [out], extensions: [o, txt]}]"),
        ("[out/sub]+[o] and [out/y.txt]", "[{paths: [out/sub], extensions: [o]}, {paths: [out/y.txt]}]"),
        ("[cur] (a symlink to a directory)", "[{paths: [cur]}]"),
        ("[cfg.txt] (a symlink to a file)", "[{paths: [cfg.txt]}]"),
        ("none", "[]"),
        ("[out, out/sub]+[o] (nested paths in one resource)", "[{paths: [out, out/sub], extensions: [o]}]"),
        ("[out]+[o] and [out/sub]+[o] (nested paths in two resources)", "[{paths: [out], extensions: [o]}, {paths: [out/sub], extensions: [o]}]"),
        ("[missing, out] (a path that does not exist comes first)", "[{paths: [missing, out]}]"),
        ("[missing] and [out]+[o] (a resource whose path does not exist comes first)", "[{paths: [missing]}, {paths: [out], extensions: [o]}]"),
    ]
}
pub fn clean_modes() -> Vec<Vec<&'static str>> {
    vec![vec!["--clean"], vec!["--clean", "t"], vec!["--clean", "u"], vec!["--clean", "t", "v"], vec!["--clean", "q::w"], vec!["--clean", "v", "q::w"]]
}

struct C12Case {
    tree_bits: usize,
    decl: usize,
    mode: usize,
}

fn build_c12_tree(root: &Path, bits: usize, decl_yaml: &str, trace: &Path) {
    let tr = trace.display();
    let yml = format!(
        "imports:\n  q: q\n  e: e\ntargets:\n  t:\n    dependencies: [u, l]\n    build: 'echo t >> {tr}'\n    input: [{{paths: [src/in.txt]}}]\n    output: {decl}\n  l:\n    build: 'echo l >> {tr}'\n    input: [{{paths: [src/in.txt]}}]\n  u:\n    build: 'echo u >> {tr}'\n    input: [{{paths: [src/in.txt]}}]\n    output: [{{paths: [uout]}}]\n  v:\n    build: 'echo v >> {tr}'\n    input: [{{paths: [src/in.txt]}}]\n    output: [{{paths: [vout]}}]\n",
        tr = tr,
        decl = decl_yaml
    );
    write(&root.join("zinoma.yml"), yml.as_bytes());
    write(&root.join("q/zinoma.yml"), format!("name: q\ntargets:\n  w:\n    build: 'echo w >> {tr}'\n    input: [{{paths: [qin.txt]}}]\n    output: [{{paths: [wout]}}]\n", tr = tr).as_bytes());
    // a loaded project that declares no targets any more but still holds state from the time it did
    write(&root.join("e/zinoma.yml"), b"name: e\n");
    write(&root.join("e/.zinoma/e::old.checksums"), b"record of a target that is no longer declared");
    write(&root.join("e/data.txt"), b"unrelated file of e");
    write(&root.join("q/qin.txt"), b"q input");
    write(&root.join("q/wout/c.bin"), b"w output");
    write(&root.join("src/in.txt"), b"input");
    write(&root.join("ext/e.o"), b"outside, reached through a directory symlink");
    write(&root.join("precious.o"), b"outside, reached through a file symlink");
    write(&root.join("uout/a.bin"), b"u output");
    write(&root.join("vout/b.bin"), b"v output");
    write(&root.join("keep/notes.txt"), b"unrelated");
    // declared outputs that are symlinks: the link goes, what it points to stays
    write(&root.join("releases/v1/app.bin"), b"release payload");
    write(&root.join("cache/cfg-1.txt"), b"cached config");
    std::os::unix::fs::symlink("releases/v1", root.join("cur")).unwrap();
    std::os::unix::fs::symlink("cache/cfg-1.txt", root.join("cfg.txt")).unwrap();
    for (i, e) in OUT_ENTRIES.iter().enumerate() {
        if bits & (1 << i) == 0 {
            continue;
        }
        let p = root.join(e);
        match *e {
            "out/dlink" => {
                std::fs::create_dir_all(p.parent().unwrap()).unwrap();
                std::os::unix::fs::symlink("../ext", &p).unwrap();
            }
            "out/flink.o" => {
                std::fs::create_dir_all(p.parent().unwrap()).unwrap();
                std::os::unix::fs::symlink("../precious.o", &p).unwrap();
            }
            _ => write(&p, e.as_bytes()),
        }
        if *e == "out/sub/z.o" {
            // matching files whose names are not valid UTF-8, one of them below a directory with such a name
            use std::os::unix::ffi::OsStrExt;
            write(&root.join("out/sub").join(std::ffi::OsStr::from_bytes(b"caf\xE9.o")), b"non-UTF-8 name");
            write(&root.join("out/sub").join(std::ffi::OsStr::from_bytes(b"r\xE9sum\xE9")).join("inner.o"), b"below a non-UTF-8 directory");
        }
    }
    if bits & (1 << 6) != 0 {
        write(&root.join(".zinoma/other.txt"), b"unrelated file in the work dir");
    }
}

/// valid records come from a real first run of every target; the tree bits then say which of them stay
fn c12_prepare_records(root: &Path, bits: usize, trace: &Path) -> bool {
    let r = run_zinoma(root, &["t", "v", "q::w"], Duration::from_secs(30));
    if r.code != Some(0) {
        return false;
    }
    if bits & (1 << 7) == 0 {
        for t in ["t", "u", "l"] {
            let _ = std::fs::remove_file(root.join(format!(".zinoma/{}.checksums", t)));
        }
    }
    if bits & (1 << 8) == 0 {
        let _ = std::fs::remove_file(root.join(".zinoma/v.checksums"));
        let _ = std::fs::remove_file(root.join("q/.zinoma/q::w.checksums"));
    }
    if bits & (1 << 6) == 0 && bits & (1 << 7) == 0 && bits & (1 << 8) == 0 {
        let _ = std::fs::remove_dir_all(root.join(".zinoma"));
        let _ = std::fs::remove_dir_all(root.join("q/.zinoma"));
    }
    let _ = std::fs::remove_file(trace);
    true
}

/// reference: which relative paths must be gone after the invocation (before any script runs)
fn c12_expected_deleted(before: &BTreeMap<PathBuf, Node>, decl: usize, mode: &[&str]) -> (BTreeSet<PathBuf>, BTreeSet<PathBuf>, Vec<&'static str>) {
    let targets: Vec<&str> = mode.iter().skip(1).cloned().collect();
    let all = targets.is_empty();
    // scope = closure of the requested targets (t depends on u)
    let mut scope: BTreeSet<&'static str> = BTreeSet::new();
    if all {
        scope.extend(["t", "u", "l", "v", "q::w"]);
    }
    for t in &targets {
        match *t {
            "t" => {
                scope.insert("t");
                scope.insert("u");
                scope.insert("l");
            }
            "u" => {
                scope.insert("u");
            }
            "v" => {
                scope.insert("v");
            }
            _ => {
                scope.insert("q::w");
            }
        }
    }
    let mut del: BTreeSet<PathBuf> = BTreeSet::new();
    let mut dontcare: BTreeSet<PathBuf> = BTreeSet::new();
    let under = |prefix: &str| -> Vec<PathBuf> { before.keys().filter(|k| k.starts_with(prefix)).cloned().collect() };
    let is_reg = |p: &PathBuf| matches!(before.get(p), Some(Node::File(_)));
    let in_workdir_below = |p: &PathBuf, base: &str| p.strip_prefix(base).map(|r| r.components().any(|c| c.as_os_str() == ".zinoma")).unwrap_or(false);
    let mut plain = |path: &str, del: &mut BTreeSet<PathBuf>| {
        // the path itself, recursively; symlinks removed, not followed
        del.extend(under(path));
    };
    let filtered = |path: &str, exts: &[&str], del: &mut BTreeSet<PathBuf>, dontcare: &mut BTreeSet<PathBuf>| {
        for p in under(path) {
            let name = p.file_name().unwrap().to_string_lossy().to_string();
            let m = exts.iter().any(|e| name.ends_with(&format!(".{}", e)));
            if !m || in_workdir_below(&p, path) {
                continue;
            }
            // below a symlinked directory nothing is reached
            if p.ancestors().skip(1).any(|a| matches!(before.get(&a.to_path_buf()), Some(Node::Link(_)))) {
                continue;
            }
            if is_reg(&p) {
                del.insert(p);
            } else if matches!(before.get(&p), Some(Node::Link(_))) {
                dontcare.insert(p); // a symlink whose target is a matching regular file
            }
        }
    };
    if scope.contains("t") {
        match decl {
            0 => plain("out", &mut del),
            1 => filtered("out", &["o"], &mut del, &mut dontcare),
            2 => plain("out/x.o", &mut del),
            3 => {
                plain("out", &mut del);
                plain("missing", &mut del)
            }
            4 => filtered("out", &["o", "txt"], &mut del, &mut dontcare),
            5 => {
                filtered("out/sub", &["o"], &mut del, &mut dontcare);
                plain("out/y.txt", &mut del)
            }
            6 => {
                del.insert(PathBuf::from("cur"));
            }
            7 => {
                del.insert(PathBuf::from("cfg.txt"));
            }
            9 | 10 | 12 => filtered("out", &["o"], &mut del, &mut dontcare),
            11 => plain("out", &mut del),
            _ => {}
        }
    }
    if scope.contains("u") {
        plain("uout", &mut del);
    }
    if scope.contains("v") {
        plain("vout", &mut del);
    }
    if scope.contains("q::w") {
        plain("q/wout", &mut del);
    }
    // state
    if all {
        del.extend(under(".zinoma"));
        del.extend(under("q/.zinoma"));
        del.extend(under("e/.zinoma"));
    } else {
        for t in &scope {
            let rec = match *t {
                "q::w" => PathBuf::from("q/.zinoma/q::w.checksums"),
                x => PathBuf::from(format!(".zinoma/{}.checksums", x)),
            };
            if before.contains_key(&rec) {
                del.insert(rec);
            }
        }
    }
    let executed: Vec<&'static str> = if all { vec![] } else { scope.iter().cloned().collect() };
    (del, dontcare, executed)
}

pub fn check_c12(rep: &mut Report) {
    let thorough = rep.thorough();
    let decls = output_decls();
    let modes = clean_modes();
    let mut cases = vec![];
    let nbits = 9;
    for bits in 0..(1usize << nbits) {
        // quick: the record bits are varied only with a reduced set of out/ trees
        if !thorough && (bits >> 6) != 0b111 && (bits & 0b111111) % 5 != 0 {
            continue;
        }
        for d in 0..decls.len() {
            for m in 0..modes.len() {
                cases.push(C12Case { tree_bits: bits, decl: d, mode: m });
            }
        }
    }
    struct Out {
        violations: Vec<(String, String, serde_json::Value)>,
        machinery: Vec<String>,
        deleted_total: u64,
        distinct: BTreeSet<String>,
        sample: Option<serde_json::Value>,
    }
    let idxs: Vec<usize> = (0..cases.len()).collect();
    let chunks: Vec<Vec<usize>> = idxs.chunks(64).map(|c| c.to_vec()).collect();
    let outs: Vec<Out> = crate::explore::par_map(&chunks, 16, |chunk| {
        let mut o = Out { violations: vec![], machinery: vec![], deleted_total: 0, distinct: BTreeSet::new(), sample: None };
        for &ci in chunk {
            let c = &cases[ci];
            let base = scratch(&format!("c12-{}", ci));
            let root = base.join("proj");
            let trace = base.join("trace.log");
            build_c12_tree(&root, c.tree_bits, decls[c.decl].1, &trace);
            if !c12_prepare_records(&root, c.tree_bits, &trace) {
                o.machinery.push(format!("case {}: the preparing run failed", ci));
                let _ = std::fs::remove_dir_all(&base);
                continue;
            }
            let before = snapshot(&root);
            let mode = &modes[c.mode];
            let (del, dontcare, executed) = c12_expected_deleted(&before, c.decl, mode);
            let r = run_zinoma(&root, mode, Duration::from_secs(20));
            let after = snapshot(&root);
            let tr = read_trace(&trace);
            let desc = format!("tree={:09b} outputs of t: {} ; invocation: zinoma {}", c.tree_bits, decls[c.decl].0, mode.join(" "));
            let replay = json!({"engine": "binbox", "check": "C12", "tree_bits": c.tree_bits, "out_entries": OUT_ENTRIES, "t_output": decls[c.decl].0, "args": mode});
            if r.timed_out || r.code != Some(0) {
                o.violations.push((format!("clean-invocation-fails: {}", mode.join(" ")), format!("{}\nexit {:?} timed_out={} stderr: {}", desc, r.code, r.timed_out, r.stderr.lines().rev().take(3).collect::<Vec<_>>().join(" | ")), replay));
                let _ = std::fs::remove_dir_all(&base);
                continue;
            }
            o.deleted_total += del.len() as u64;
            // what the run may add: records of executed targets and the work dirs holding them
            let mut allowed_new: BTreeSet<PathBuf> = BTreeSet::new();
            for t in &executed {
                match *t {
                    "q::w" => {
                        allowed_new.insert(PathBuf::from("q/.zinoma"));
                        allowed_new.insert(PathBuf::from("q/.zinoma/q::w.checksums"));
                    }
                    x => {
                        allowed_new.insert(PathBuf::from(".zinoma"));
                        allowed_new.insert(PathBuf::from(format!(".zinoma/{}.checksums", x)));
                    }
                }
            }
            let mut wrong_deleted = vec![];
            let mut wrong_kept = vec![];
            let mut wrong_changed = vec![];
            for (p, n) in &before {
                if dontcare.contains(p) {
                    continue;
                }
                match (del.contains(p), after.get(p)) {
                    (true, Some(_)) => {
                        if !allowed_new.contains(p) {
                            wrong_kept.push(lossy(p))
                        }
                    }
                    (false, None) => wrong_deleted.push(lossy(p)),
                    (false, Some(n2)) if n2 != n && !allowed_new.contains(p) => wrong_changed.push(lossy(p)),
                    _ => {}
                }
            }
            let created: Vec<String> = after.keys().filter(|p| !before.contains_key(*p) && !allowed_new.contains(*p)).map(|p| lossy(p)).collect();
            o.distinct.insert(format!("{:?}|{}|{}", del, c.decl, c.mode));
            if o.sample.is_none() && del.len() >= 3 && c.decl == 1 {
                o.sample = Some(json!({"case": desc, "expected_deleted": del.iter().map(|p| lossy(p)).collect::<Vec<_>>(), "dont_care": dontcare.iter().map(|p| lossy(p)).collect::<Vec<_>>()}));
            }
            let class = |v: &Vec<String>| -> String {
                let mut c: Vec<String> = v.iter().map(|s| if s.contains(".checksums") || s.contains(".zinoma") { "state".to_string() } else if s.starts_with("ext") || s.starts_with("precious") { "reached through a symlink".to_string() } else { s.split('/').next().unwrap_or("").to_string() + "/.." }).collect();
                c.sort();
                c.dedup();
                c.join(",")
            };
            if !wrong_deleted.is_empty() {
                o.violations.push((format!("deleted-something-else: {} [t output {} ; {}]", class(&wrong_deleted), decls[c.decl].0, mode.join(" ")), format!("{}\ndeleted although neither a declared output nor state in scope: {:?}", desc, wrong_deleted), replay.clone()));
            }
            if !wrong_kept.is_empty() {
                o.violations.push((format!("not-deleted: {} [t output {} ; {}]", class(&wrong_kept), decls[c.decl].0, mode.join(" ")), format!("{}\nstill present although declared output / state in scope: {:?}", desc, wrong_kept), replay.clone()));
            }
            if !wrong_changed.is_empty() || !created.is_empty() {
                o.violations.push((format!("modified-or-created: {} [{}]", class(&wrong_changed.iter().chain(created.iter()).cloned().collect()), mode.join(" ")), format!("{}\nchanged: {:?} created: {:?}", desc, wrong_changed, created), replay.clone()));
            }
            // with targets given, every scoped target is executed (never skipped), others are not
            let mut want: Vec<String> = executed.iter().map(|t| t.trim_start_matches("q::").to_string()).collect();
            want.sort();
            let mut got = tr.clone();
            got.sort();
            if want != got {
                o.violations.push((format!("executed-set-after-clean-differs [{}]", mode.join(" ")), format!("{}\nscripts executed {:?}, expected exactly {:?}", desc, tr, want), replay));
            }
            let _ = std::fs::remove_dir_all(&base);
        }
        o
    });
    let mut distinct = BTreeSet::new();
    let mut best: BTreeMap<String, (String, serde_json::Value)> = BTreeMap::new();
    for o in outs {
        rep.add_u64("entries_expected_deleted_total", o.deleted_total);
        distinct.extend(o.distinct);
        for (fp, d, r) in o.violations {
            match best.get(&fp) {
                Some(old) if old.0.len() <= d.len() => {}
                _ => {
                    best.insert(fp, (d, r));
                }
            }
        }
        rep.machinery_errors.extend(o.machinery);
        if let Some(s) = o.sample {
            rep.push_sample(s);
        }
    }
    for (fp, (d, r)) in best {
        rep.violation(fp, d, r);
    }
    rep.set("states", json!(distinct.len()));
    rep.set("transitions", json!(cases.len()));
    rep.set("traces_validated_against_impl", json!(cases.len()));
    rep.set("invocations_of_the_real_binary", json!(cases.len()));
    rep.set("exhaustive", json!(true));
    rep.set("bounds", json!({"tree_entries": OUT_ENTRIES, "always_present": ["imported project e without targets holding a stale record"], "other_bits": ["unrelated file in .zinoma", "records of t, u and l", "records of v and q::w"], "trees": if thorough { "all 512" } else { "all out/ subsets with every record present; every 5th out/ subset for the other record combinations" }, "t_output_declarations": decls.iter().map(|d| d.0).collect::<Vec<_>>(), "invocations": modes.iter().map(|m| m.join(" ")).collect::<Vec<_>>()}));
    rep.set("rule", json!("states = distinct (expected deletion set, declaration, invocation); transitions = invocations of the real binary compared by full recursive snapshot"));
    rep.assumptions.push("don't-care: whether a symlink whose target is a matching regular file is itself unlinked".into());
}

// ---------------------------------------------------------------------------------------
// C18

#[derive(Clone, Copy, Debug, PartialEq, Eq, Hash, PartialOrd, Ord)]
pub enum Inv {
    // (t is the target `t-1` of project c; its sibling `t_1` differs only in '-' / '_')
    RootQualified,      // -p R c::t
    RootUse,            // -p R use
    OwnDirBare,         // -p R/c t
    OwnDirQualified,    // -p R/c c::t
    RootRelative,       // cwd = R, no -p
    RootDotSlash,       // -p ./R from the parent
    RootSymlinked,      // -p Rlink
    OwnDirSymlinked,    // -p Rlink/c
    RootAbsolute,       // -p /abs/R
    RootAbsoluteDotDot, // -p /abs/R/c/../../R
    OwnDirAbsoluteLink, // -p /abs/Rlink/c
    Other,              // other
    Sibling,            // c::t_1 (same project as t, name differs only in '-' / '_')
    CleanSibling,       // --clean c::t_1
    CorruptSibling,     // the sibling's record is damaged, then c::t_1 is built (the damaged record is discarded)
    Bad,                // bad (fails)
    CleanOther,         // --clean other
    CleanUse,           // --clean use (cleans c::t too)
    EditOtherInput,
    EditTInput,
    TouchTInputSameContent,
}

pub fn inv_alphabet() -> Vec<Inv> {
    use Inv::*;
    // (rewriting t's input with the same content is left out: the statement allows either decision then)
    vec![RootQualified, RootUse, OwnDirBare, OwnDirQualified, RootRelative, RootDotSlash, RootSymlinked, OwnDirSymlinked, RootAbsolute, RootAbsoluteDotDot, OwnDirAbsoluteLink, Other, Sibling, CleanSibling, CorruptSibling, Bad, CleanOther, CleanUse, EditOtherInput, EditTInput]
}
fn reaches_t(i: Inv) -> bool {
    use Inv::*;
    matches!(i, RootQualified | RootUse | OwnDirBare | OwnDirQualified | RootRelative | RootDotSlash | RootSymlinked | OwnDirSymlinked | RootAbsolute | RootAbsoluteDotDot | OwnDirAbsoluteLink | CleanUse)
}

fn build_c18_tree(base: &Path, named_root: bool, trace: &Path) {
    let r = base.join("R");
    let tr = trace.display();
    let name = if named_root { "name: r\n" } else { "" };
    write(
        &r.join("zinoma.yml"),
        format!(
            "{name}imports:\n  c: c\ntargets:\n  use:\n    build: 'echo use >> {tr}'\n    input: ['c::t-1.output']\n    output: [{{paths: [use.out]}}]\n  other:\n    build: 'echo other >> {tr}'\n    input: [{{paths: [other.txt]}}]\n  bad:\n    build: 'echo bad >> {tr}; exit 1'\n    input: [{{paths: [other.txt]}}]\n",
            name = name,
            tr = tr
        )
        .as_bytes(),
    );
    write(&r.join("other.txt"), b"other v0");
    write(&r.join("c/zinoma.yml"), format!("name: c\ntargets:\n  t-1:\n    build: 'cat src.txt > out.txt; echo t >> {tr}'\n    input: [{{paths: [src.txt]}}]\n    output: [{{paths: [out.txt]}}]\n  t_1:\n    build: 'echo sibling >> {tr}'\n    input: [{{paths: [sib.txt]}}]\n", tr = tr).as_bytes());
    write(&r.join("c/src.txt"), b"src v0");
    write(&r.join("c/sib.txt"), b"sibling input");
    std::os::unix::fs::symlink("R", base.join("Rlink")).unwrap();
}

fn perform(base: &Path, inv: Inv, seq: usize) -> Option<RunOut> {
    use Inv::*;
    let r = base.join("R");
    let t = Duration::from_secs(20);
    Some(match inv {
        RootQualified => run_zinoma(base, &["-p", "R", "c::t-1"], t),
        RootUse => run_zinoma(base, &["-p", "R", "use"], t),
        OwnDirBare => run_zinoma(base, &["-p", "R/c", "t-1"], t),
        OwnDirQualified => run_zinoma(base, &["-p", "R/c", "c::t-1"], t),
        RootRelative => run_zinoma(&r, &["c::t-1"], t),
        RootDotSlash => run_zinoma(base, &["-p", "./R/../R", "c::t-1"], t),
        RootSymlinked => run_zinoma(base, &["-p", "Rlink", "c::t-1"], t),
        OwnDirSymlinked => run_zinoma(base, &["-p", "Rlink/c", "t-1"], t),
        RootAbsolute => run_zinoma(base, &["-p", &lossy(&base.join("R")), "c::t-1"], t),
        RootAbsoluteDotDot => run_zinoma(base, &["-p", &lossy(&base.join("R/c/../../R")), "c::t-1"], t),
        OwnDirAbsoluteLink => run_zinoma(base, &["-p", &lossy(&base.join("Rlink/c")), "t-1"], t),
        Other => run_zinoma(base, &["-p", "R", "other"], t),
        Sibling => run_zinoma(base, &["-p", "R", "c::t_1"], t),
        CleanSibling => run_zinoma(base, &["-p", "R", "--clean", "c::t_1"], t),
        CorruptSibling => {
            write(&r.join("c/.zinoma/c::t_1.checksums"), b"\x05damaged");
            run_zinoma(base, &["-p", "R", "c::t_1"], t)
        }
        Bad => run_zinoma(base, &["-p", "R", "bad"], t),
        CleanOther => run_zinoma(base, &["-p", "R", "--clean", "other"], t),
        CleanUse => run_zinoma(base, &["-p", "R", "--clean", "use"], t),
        EditOtherInput => {
            write(&r.join("other.txt"), format!("other v{}", seq + 1).as_bytes());
            return None;
        }
        EditTInput => {
            write(&r.join("c/src.txt"), format!("src v{}", seq + 1).as_bytes());
            return None;
        }
        TouchTInputSameContent => {
            let p = r.join("c/src.txt");
            let c = std::fs::read(&p).unwrap();
            write(&p, &c);
            return None;
        }
    })
}

pub fn check_c18(rep: &mut Report) {
    let thorough = rep.thorough();
    let alpha = inv_alphabet();
    let enders: Vec<Inv> = alpha.iter().cloned().filter(|i| reaches_t(*i) && *i != Inv::CleanUse).collect();
    // all sequences of length <= 3 ending in one of the ways of reaching t
    let mut seqs: Vec<Vec<Inv>> = vec![];
    for &e in &enders {
        seqs.push(vec![e]);
        for &a in &alpha {
            seqs.push(vec![a, e]);
            for &b in &alpha {
                if !thorough && !(reaches_t(a) && reaches_t(b)) && !(matches!(a, Inv::EditTInput | Inv::CleanUse | Inv::Bad | Inv::CleanOther) && reaches_t(b)) && !(reaches_t(a) && matches!(b, Inv::EditTInput | Inv::CleanUse | Inv::Bad | Inv::CleanOther | Inv::Other | Inv::EditOtherInput | Inv::Sibling | Inv::CleanSibling | Inv::CorruptSibling)) {
                    continue; // quick: both earlier steps are about t, or one is and the other is an edit/clean/failure
                }
                seqs.push(vec![a, b, e]);
            }
        }
    }
    let roots = [false, true];
    struct Out {
        violations: Vec<(String, String, serde_json::Value)>,
        runs: u64,
        skips: u64,
        distinct: BTreeSet<String>,
        sample: Option<serde_json::Value>,
    }
    let jobs: Vec<(usize, bool)> = (0..seqs.len()).flat_map(|i| roots.iter().map(move |&n| (i, n))).collect();
    let chunks: Vec<Vec<(usize, bool)>> = jobs.chunks(32).map(|c| c.to_vec()).collect();
    let outs: Vec<Out> = crate::explore::par_map(&chunks, 16, |chunk| {
        let mut o = Out { violations: vec![], runs: 0, skips: 0, distinct: BTreeSet::new(), sample: None };
        for &(si, named) in chunk {
            let seq = &seqs[si];
            let base = scratch(&format!("c18-{}-{}", si, named as u8));
            let trace = base.join("trace.log");
            build_c18_tree(&base, named, &trace);
            // reference: one record per (canonical project dir, target): valid <=> t's last successful execution
            // saw the current input and nothing dropped the record since
            let mut t_valid = false;
            let mut log: Vec<String> = vec![];
            let mut bad: Option<(String, String)> = None;
            for (k, inv) in seq.iter().enumerate() {
                let before = read_trace(&trace).len();
                match inv {
                    Inv::EditTInput => t_valid = false,
                    Inv::CleanUse => t_valid = false,
                    _ => {}
                }
                let r = perform(&base, *inv, k);
                if let Some(r) = r {
                    o.runs += 1;
                    let new: Vec<String> = read_trace(&trace)[before..].to_vec();
                    let t_ran = new.iter().any(|l| l == "t");
                    log.push(format!("{:?} -> exit {:?}, scripts {:?}", inv, r.code, new));
                    if r.timed_out {
                        bad.get_or_insert(("invocation-hangs".into(), format!("{:?} did not end within 20 s", inv)));
                    }
                    let expect_fail = *inv == Inv::Bad;
                    if (r.code == Some(0)) == expect_fail && bad.is_none() {
                        bad = Some((format!("unexpected-exit-status: {:?}", inv), format!("{:?} exited {:?}; stderr: {}", inv, r.code, r.stderr.lines().rev().take(3).collect::<Vec<_>>().join(" | "))));
                    }
                    if reaches_t(*inv) {
                        let expect_run = !t_valid;
                        if t_ran != expect_run && bad.is_none() {
                            bad = Some((
                                format!("{} [{:?} after {:?}]", if t_ran { "t-rebuilt-although-its-own-state-is-unchanged" } else { "t-skipped-although-its-own-state-changed" }, inv, seq[..k].to_vec()),
                                format!("{:?}: t {} but the reference (own resources + own last success only) says it must be {}", inv, if t_ran { "was executed" } else { "was skipped" }, if expect_run { "executed" } else { "skipped" }),
                            ));
                        }
                        if !t_ran {
                            o.skips += 1;
                        }
                        if r.code == Some(0) {
                            t_valid = true;
                        }
                    } else if t_ran && bad.is_none() {
                        bad = Some((format!("t-executed-by-an-unrelated-invocation: {:?}", inv), format!("{:?} ran t", inv)));
                    }
                } else {
                    log.push(format!("{:?}", inv));
                }
            }
            o.distinct.insert(format!("{}|{:?}", named, log));
            if o.sample.is_none() && seq.len() == 3 {
                o.sample = Some(json!({"root_named": named, "sequence": log}));
            }
            if let Some((fp, d)) = bad {
                o.violations.push((fp, format!("root project {}named\n{}\n{}", if named { "" } else { "un" }, log.join("\n"), d), json!({"engine": "binbox", "check": "C18", "root_named": named, "sequence": seq.iter().map(|i| format!("{:?}", i)).collect::<Vec<_>>()})));
            }
            let _ = std::fs::remove_dir_all(&base);
        }
        o
    });
    let mut distinct = BTreeSet::new();
    let mut best: BTreeMap<String, (String, serde_json::Value)> = BTreeMap::new();
    let (mut runs, mut skips) = (0, 0);
    for o in outs {
        runs += o.runs;
        skips += o.skips;
        distinct.extend(o.distinct);
        for (fp, d, r) in o.violations {
            match best.get(&fp) {
                Some(old) if old.0.len() <= d.len() => {}
                _ => {
                    best.insert(fp, (d, r));
                }
            }
        }
        if let Some(s) = o.sample {
            rep.push_sample(s);
        }
    }
    for (fp, (d, r)) in best {
        rep.violation(fp, d, r);
    }
    rep.set("states", json!(distinct.len()));
    rep.set("transitions", json!(runs));
    rep.set("traces_validated_against_impl", json!(jobs.len()));
    rep.set("sequences", json!(jobs.len()));
    rep.set("invocations_of_the_real_binary", json!(runs));
    rep.set("final_decisions_skipped", json!(skips));
    rep.set("exhaustive", json!(true));
    rep.set("bounds", json!({"alphabet": alpha.iter().map(|i| format!("{:?}", i)).collect::<Vec<_>>(), "sequences": if thorough { "all of length <=3 ending in a way of reaching t" } else { "all of length <=2, and of length 3 where both earlier steps reach t or one does and the other is an edit / clean / failing sibling, ending in a way of reaching t" }, "root": "unnamed and named r"}));
    rep.set("rule", json!("states = distinct sequences by their full decision log; transitions = invocations of the real binary"));
}
