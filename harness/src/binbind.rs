//! E3, second purpose (DESIGN §5.2): bind the in-crate explorations to the real binary —
//! `main.rs` wiring (exit status, terminate() on both paths, resolve-before-clean-before-run),
//! real processes, real signals. Causal triggers (a trace line appeared), bounded waits;
//! a verdict other than OK is re-run twice and reported only if it reproduces.
use crate::binbox::zinoma_bin;
use crate::report::Report;
use crate::sequtil::*;
use serde_json::json;
use std::path::{Path, PathBuf};
use std::process::{Child, Command, Stdio};
use std::sync::atomic::{AtomicU64, Ordering};
use std::time::{Duration, Instant};

static SEQ: AtomicU64 = AtomicU64::new(0);

pub struct Proj {
    pub base: PathBuf,
    pub root: PathBuf,
    pub trace: PathBuf,
    pub marker: String,
}

impl Proj {
    pub fn new(tag: &str) -> Proj {
        let n = SEQ.fetch_add(1, Ordering::SeqCst);
        let base = scratch(&format!("bind-{}-{}", tag, n));
        let root = base.join("proj");
        std::fs::create_dir_all(&root).unwrap();
        Proj { trace: base.join("trace.log"), marker: format!("zvm-{}-{}-{}", std::process::id(), tag, n), base, root }
    }
    /// script fragments: log the start, then `body`
    pub fn script(&self, name: &str, body: &str) -> String {
        format!("echo start {n} >> {t}; {b}", n = name, t = self.trace.display(), b = body)
    }
    pub fn quick(&self, name: &str) -> String {
        self.script(name, &format!("echo end {} >> {}", name, self.trace.display()))
    }
    pub fn forever(&self, name: &str) -> String {
        self.script(name, "exec sleep 1000")
    }
    pub fn write_yml(&self, rel: &str, text: &str) {
        write(&self.root.join(rel), text.as_bytes());
    }
    pub fn trace_lines(&self) -> Vec<String> {
        std::fs::read_to_string(&self.trace).unwrap_or_default().lines().map(|s| s.to_string()).collect()
    }
    pub fn spawn_env(&self, args: &[&str], envs: &[(&str, &str)]) -> Child {
        let mut c = Command::new(zinoma_bin());
        c.args(args).current_dir(&self.root).env("ZV_MARKER", &self.marker).stdin(Stdio::null()).stdout(Stdio::null()).stderr(Stdio::piped());
        for (k, v) in envs {
            c.env(k, v);
        }
        c.spawn().expect("spawn zinoma")
    }
    pub fn spawn(&self, args: &[&str]) -> Child {
        Command::new(zinoma_bin()).args(args).current_dir(&self.root).env("ZV_MARKER", &self.marker).stdin(Stdio::null()).stdout(Stdio::null()).stderr(Stdio::piped()).spawn().expect("spawn zinoma")
    }
    /// wait (bounded) until the trace contains `line`
    pub fn wait_line(&self, line: &str, secs: u64) -> bool {
        let t0 = Instant::now();
        while t0.elapsed() < Duration::from_secs(secs) {
            if self.trace_lines().iter().any(|l| l == line) {
                return true;
            }
            std::thread::sleep(Duration::from_millis(5));
        }
        false
    }
    /// pids of processes still carrying this run's marker variable
    pub fn leftovers(&self) -> Vec<(i32, String)> {
        let mut v = vec![];
        let needle = format!("ZV_MARKER={}", self.marker);
        if let Ok(rd) = std::fs::read_dir("/proc") {
            for e in rd.flatten() {
                if let Some(pid) = e.file_name().to_str().and_then(|s| s.parse::<i32>().ok()) {
                    if let Ok(env) = std::fs::read(e.path().join("environ")) {
                        if env.split(|b| *b == 0).any(|kv| kv == needle.as_bytes()) {
                            let cmd = std::fs::read(e.path().join("cmdline")).map(|c| String::from_utf8_lossy(&c).replace('\0', " ")).unwrap_or_default();
                            v.push((pid, cmd));
                        }
                    }
                }
            }
        }
        v
    }
    pub fn cleanup(&self) {
        for (pid, _) in self.leftovers() {
            unsafe {
                libc::kill(pid, libc::SIGKILL);
            }
        }
        let _ = std::fs::remove_dir_all(&self.base);
    }
}

pub struct Ended {
    pub code: Option<i32>,
    pub signal: Option<i32>,
    pub stderr: String,
    pub timed_out: bool,
    pub took: Duration,
}

pub fn wait_end(mut c: Child, secs: u64) -> Ended {
    use std::os::unix::process::ExitStatusExt;
    let t0 = Instant::now();
    let mut err = c.stderr.take().unwrap();
    // the scripts inherit zinoma's stderr: a script that outlives zinoma keeps the pipe open, so the reader
    // is never joined unconditionally (it reports through a channel, with a bounded wait)
    let (tx, rx) = std::sync::mpsc::channel::<String>();
    std::thread::spawn(move || {
        let mut s = String::new();
        let _ = std::io::Read::read_to_string(&mut err, &mut s);
        let _ = tx.send(s);
    });
    let stderr_of = |rx: &std::sync::mpsc::Receiver<String>| rx.recv_timeout(Duration::from_millis(1500)).unwrap_or_else(|_| "<stderr still held open by a surviving child process>".to_string());
    loop {
        match c.try_wait().expect("try_wait") {
            Some(st) => return Ended { code: st.code(), signal: st.signal(), stderr: stderr_of(&rx), timed_out: false, took: t0.elapsed() },
            None => {
                if t0.elapsed() > Duration::from_secs(secs) {
                    let _ = c.kill();
                    let _ = c.wait();
                    return Ended { code: None, signal: None, stderr: stderr_of(&rx), timed_out: true, took: t0.elapsed() };
                }
                std::thread::sleep(Duration::from_millis(2));
            }
        }
    }
}

fn alive(c: &mut Child) -> bool {
    matches!(c.try_wait(), Ok(None))
}

fn signal(c: &Child, sig: i32) {
    unsafe {
        libc::kill(c.id() as i32, sig);
    }
}

/// one scenario: returns None when everything predicted was observed, else (fingerprint, detail)
pub type Scenario = (&'static str, fn() -> Option<(String, String)>);

fn run_scenarios(rep: &mut Report, prop: &str, scenarios: Vec<Scenario>) {
    let results: Vec<(&'static str, Option<(String, String)>, u32)> = crate::explore::par_map(&scenarios, 8, |(name, f)| {
        let mut r = f();
        let mut reruns = 0;
        if r.is_some() {
            // reproduce twice before believing it
            let a = f();
            let b = f();
            reruns = 2;
            if a.is_none() || b.is_none() {
                r = None;
                return (*name, Some(("__flake__".to_string(), format!("first run disagreed, reruns: {:?} {:?}", a.is_none(), b.is_none()))), reruns);
            }
        }
        (*name, r, reruns)
    });
    let mut flakes = vec![];
    let mut ok = 0u64;
    for (name, r, _) in &results {
        match r {
            None => ok += 1,
            Some((fp, d)) if fp == "__flake__" => flakes.push(json!({"scenario": name, "detail": d})),
            Some((fp, d)) => rep.violation(format!("binary/{}: {}", name, fp), format!("real binary, scenario {}: {}", name, d), json!({"engine": "binbox", "check": prop, "scenario": name})),
        }
    }
    rep.set("traces_validated_against_binary", json!(ok));
    rep.set("binary_scenarios", json!(results.iter().map(|r| r.0).collect::<Vec<_>>()));
    rep.set("binding_flakes", json!(flakes));
}

// ---------------------------------------------------------------------------------------
// C10: every exit path is prompt and leaves no spawned process behind

fn c10_signal_during(sig: i32, yml: fn(&Proj) -> String, args: &'static [&'static str], wait_for: &'static str) -> Option<(String, String)> {
    let p = Proj::new("c10");
    p.write_yml("zinoma.yml", &yml(&p));
    let mut c = p.spawn(args);
    if !p.wait_line(wait_for, 20) {
        let e = wait_end(c, 1);
        p.cleanup();
        return Some(("set-up: expected start line never appeared".into(), format!("{} not seen; stderr: {}", wait_for, e.stderr)));
    }
    if !alive(&mut c) {
        p.cleanup();
        return Some(("exited before the signal".into(), "zinoma ended although a script is still running".into()));
    }
    signal(&c, sig);
    let e = wait_end(c, 15);
    let left = p.leftovers();
    let r = if e.timed_out {
        Some((format!("signal {} not honoured", sig), "zinoma still running 15 s after the signal while its scripts sleep for 1000 s".to_string()))
    } else if !left.is_empty() {
        Some(("process left behind".to_string(), format!("after zinoma exited these processes it spawned are still alive: {:?}", left)))
    } else {
        None
    };
    p.cleanup();
    r
}

fn yml_one_build(p: &Proj) -> String {
    format!("targets:\n  b:\n    build: '{}'\n", p.forever("b"))
}
fn yml_service(p: &Proj) -> String {
    format!("targets:\n  s:\n    service: '{}'\n", p.forever("s"))
}
fn yml_build_on_service(p: &Proj) -> String {
    format!("targets:\n  s:\n    service: '{}'\n  a:\n    dependencies: [s]\n    build: '{}'\n", p.forever("s"), p.forever("a"))
}
fn yml_two_builds_and_agg(p: &Proj) -> String {
    format!("targets:\n  x:\n    build: '{}'\n  y:\n    build: '{}'\n  all:\n    dependencies: [x, y]\n", p.forever("x"), p.forever("y"))
}
fn yml_chain_second_running(p: &Proj) -> String {
    format!("targets:\n  first:\n    build: '{}'\n  second:\n    dependencies: [first]\n    build: '{}'\n", p.quick("first"), p.forever("second"))
}

/// the exit after a failure races with whatever the dropped actors still do by themselves: the scenario is
/// repeated so that an outcome that shows only on some runs is seen (each finding is still re-confirmed twice)
fn c10_failure_exit() -> Option<(String, String)> {
    for _ in 0..12 {
        if let Some(r) = c10_failure_exit_once() {
            return Some(r);
        }
    }
    None
}

fn c10_failure_exit_once() -> Option<(String, String)> {
    let p = Proj::new("c10f");
    // `slow` never ends; `bad` fails once `slow` has started
    let wait_slow = format!("while ! grep -q \"start slow\" {t} 2>/dev/null; do sleep 0.01; done; exit 3", t = p.trace.display());
    p.write_yml("zinoma.yml", &format!("targets:\n  slow:\n    build: '{}'\n  bad:\n    build: '{}'\n  all:\n    dependencies: [slow, bad]\n", p.forever("slow"), p.script("bad", &wait_slow)));
    let c = p.spawn(&["all"]);
    let e = wait_end(c, 20);
    let left = p.leftovers();
    let r = if e.timed_out {
        Some(("failure exit not prompt".to_string(), "a target failed but zinoma was still running 20 s later (another script sleeps for 1000 s)".to_string()))
    } else if e.code == Some(0) {
        Some(("exit status 0 after a failure".to_string(), format!("stderr: {}", e.stderr)))
    } else if !left.is_empty() {
        Some(("process left behind after a failure".to_string(), format!("{:?}", left)))
    } else if !e.stderr.contains("bad") {
        Some(("error does not name the failed target".to_string(), e.stderr.clone()))
    } else {
        None
    };
    p.cleanup();
    r
}

fn c10_watch_idle() -> Option<(String, String)> {
    let p = Proj::new("c10w");
    write(&p.root.join("in.txt"), b"x");
    p.write_yml("zinoma.yml", &format!("targets:\n  b:\n    build: '{}'\n    input: [{{paths: [in.txt]}}]\n  s:\n    dependencies: [b]\n    service: '{}'\n", p.quick("b"), p.forever("s")));
    let mut c = p.spawn(&["--watch", "s"]);
    if !p.wait_line("start s", 20) {
        let e = wait_end(c, 1);
        p.cleanup();
        return Some(("set-up: service never started in watch mode".into(), e.stderr));
    }
    if !alive(&mut c) {
        p.cleanup();
        return Some(("watch run ended by itself".into(), String::new()));
    }
    signal(&c, libc::SIGINT);
    let e = wait_end(c, 15);
    let left = p.leftovers();
    let r = if e.timed_out {
        Some(("SIGINT not honoured in watch mode".to_string(), String::new()))
    } else if !left.is_empty() {
        Some(("process left behind after a watch run".to_string(), format!("{:?}", left)))
    } else {
        None
    };
    p.cleanup();
    r
}

/// the signal arrives while a target with 150 requesters is past its script (computing the state of a slow
/// command output): afterwards it has far more acknowledgements to send than the queue holds and nobody relays
/// them any more; the exit must not wait for them
fn c10_signal_before_a_burst_of_acknowledgements() -> Option<(String, String)> {
    let p = Proj::new("c10q");
    let tr = p.trace.display().to_string();
    write(&p.root.join("in.txt"), b"input");
    write(&p.root.join("probe.sh"), format!("echo probe-start >> {tr}\nsleep 2\necho probe-end >> {tr}\necho value\n", tr = tr).as_bytes());
    let mut y = String::from("targets:\n  all:\n    dependencies: [");
    y += &(0..150).map(|i| format!("g{}", i)).collect::<Vec<_>>().join(", ");
    y += "]\n";
    for i in 0..150 {
        y += &format!("  g{}:\n    dependencies: [x]\n", i);
    }
    y += &format!("  x:\n    input: [{{paths: [in.txt]}}]\n    output: [{{cmd_stdout: \"sh probe.sh\"}}]\n    build: '{}'\n", p.quick("x"));
    p.write_yml("zinoma.yml", &y);
    let c = p.spawn(&["all"]);
    if !p.wait_line("probe-start", 30) {
        let e = wait_end_kill(c);
        p.cleanup();
        return Some(("set-up: the output command never started".into(), e));
    }
    signal(&c, libc::SIGTERM);
    let e = wait_end(c, 30);
    let left = p.leftovers();
    p.cleanup();
    if e.timed_out {
        return Some(("exit not prompt: still running 30 s after the signal".to_string(), "SIGTERM while x (150 requesters) computes the state of its output; x's script had ended".to_string()));
    }
    if !left.is_empty() {
        return Some(("process left behind".to_string(), format!("{:?}", left)));
    }
    None
}

pub fn bind_c10(rep: &mut Report) {
    let sc: Vec<Scenario> = vec![
        ("SIGTERM just before a burst of 150 acknowledgements", c10_signal_before_a_burst_of_acknowledgements),
        ("SIGTERM during a build", || c10_signal_during(libc::SIGTERM, yml_one_build, &["b"], "start b")),
        ("SIGINT during a build", || c10_signal_during(libc::SIGINT, yml_one_build, &["b"], "start b")),
        ("SIGTERM while a requested service runs", || c10_signal_during(libc::SIGTERM, yml_service, &["s"], "start s")),
        ("SIGINT while a build runs over a dependency service", || c10_signal_during(libc::SIGINT, yml_build_on_service, &["a"], "start a")),
        ("SIGTERM while two independent builds run under an aggregate", || c10_signal_during(libc::SIGTERM, yml_two_builds_and_agg, &["all"], "start y")),
        ("SIGTERM between dependent builds (second running)", || c10_signal_during(libc::SIGTERM, yml_chain_second_running, &["second"], "start second")),
        ("a target fails while another script would run for ever", c10_failure_exit),
        ("SIGINT in watch mode while idle under a service", c10_watch_idle),
    ];
    run_scenarios(rep, "C10", sc);
}

// ---------------------------------------------------------------------------------------
// C11

fn c11_requested_service_keeps_alive(args: &'static [&'static str]) -> Option<(String, String)> {
    let p = Proj::new("c11a");
    p.write_yml("zinoma.yml", &format!("targets:\n  s:\n    service: '{}'\n  b:\n    build: '{}'\n  agg:\n    dependencies: [b, s]\n  outer:\n    dependencies: [agg]\n", p.forever("s"), p.quick("b")));
    let mut c = p.spawn(args);
    if !p.wait_line("start s", 20) {
        let e = wait_end(c, 1);
        p.cleanup();
        return Some(("service never started".into(), e.stderr));
    }
    // causal: the service started; zinoma must stay alive as long as no signal is sent
    std::thread::sleep(Duration::from_millis(700));
    let still = alive(&mut c);
    signal(&c, libc::SIGTERM);
    let e = wait_end(c, 15);
    let left = p.leftovers();
    let r = if !still {
        Some(("exited under a requested service".to_string(), format!("zinoma {:?} ended by itself although service s was requested", args)))
    } else if e.timed_out {
        Some(("signal not honoured".to_string(), String::new()))
    } else if !left.is_empty() {
        Some(("service left behind".to_string(), format!("{:?}", left)))
    } else {
        None
    };
    p.cleanup();
    r
}

fn c11_dependency_only_service_is_transient() -> Option<(String, String)> {
    let p = Proj::new("c11b");
    // the build checks that the service it depends on is running while it runs
    let body = format!("if grep -q \"start s\" {t}; then echo s-was-started >> {t}; fi; echo end a >> {t}", t = p.trace.display());
    p.write_yml("zinoma.yml", &format!("targets:\n  s:\n    service: '{}'\n  a:\n    dependencies: [s]\n    build: '{}'\n", p.forever("s"), p.script("a", &body)));
    let c = p.spawn(&["a"]);
    let e = wait_end(c, 20);
    let tr = p.trace_lines();
    let left = p.leftovers();
    let r = if e.timed_out {
        Some(("kept alive by a dependency-only service".to_string(), "zinoma a did not exit within 20 s although only the build was requested".to_string()))
    } else if e.code != Some(0) {
        Some(("unexpected exit status".to_string(), format!("{:?} {}", e.code, e.stderr)))
    } else if !tr.iter().any(|l| l == "s-was-started") {
        Some(("build started before its service dependency".to_string(), format!("trace {:?}", tr)))
    } else if !left.is_empty() {
        Some(("dependency-only service left running after exit".to_string(), format!("{:?}", left)))
    } else {
        None
    };
    p.cleanup();
    r
}

/// "is stopped when zinoma exits", on the failure exit path: a service (requested directly, through an aggregate,
/// or only a dependency) runs while a build fails; repeated because what the abandoned actors still do by
/// themselves races with the exit
fn c11_service_stopped_after_a_failure() -> Option<(String, String)> {
    for round in 0..12 {
        let p = Proj::new("c11f");
        let wait_db = format!("while ! grep -q \"start db\" {t} 2>/dev/null; do sleep 0.01; done; exit 3", t = p.trace.display());
        p.write_yml(
            "zinoma.yml",
            &format!("targets:\n  db:\n    service: '{}'\n  bad:\n    build: '{}'\n  client:\n    dependencies: [db]\n    build: '{}'\n  all:\n    dependencies: [db, bad]\n", p.forever("db"), p.script("bad", &wait_db), p.script("client", &wait_db)),
        );
        let args: Vec<&str> = match round % 3 {
            0 => vec!["all"],
            1 => vec!["db", "bad"],
            _ => vec!["client"],
        };
        let c = p.spawn(&args);
        let e = wait_end(c, 20);
        let left = p.leftovers();
        p.cleanup();
        if e.timed_out {
            return Some(("failure exit not prompt under a service".to_string(), format!("zinoma {:?} still running 20 s after a build failed", args)));
        }
        if !left.is_empty() {
            return Some(("service left running after zinoma exited on a failure".to_string(), format!("zinoma {:?}: {:?}", args, left)));
        }
    }
    None
}

pub fn bind_c11(rep: &mut Report) {
    let sc: Vec<Scenario> = vec![
        ("a build fails while a service runs: the service is stopped when zinoma exits", c11_service_stopped_after_a_failure),
        ("service requested directly", || c11_requested_service_keeps_alive(&["s"])),
        ("service requested through an aggregate", || c11_requested_service_keeps_alive(&["agg"])),
        ("service requested through nested aggregates", || c11_requested_service_keeps_alive(&["outer"])),
        ("service that is only a dependency of a build", c11_dependency_only_service_is_transient),
    ];
    run_scenarios(rep, "C11", sc);
}

// ---------------------------------------------------------------------------------------
// C04 / C08: termination and exactly-once on real processes

fn c04_shape(yml: fn(&Proj) -> String, args: &'static [&'static str], expect_once: &'static [&'static str]) -> Option<(String, String)> {
    let p = Proj::new("c04");
    p.write_yml("zinoma.yml", &yml(&p));
    let c = p.spawn(args);
    let e = wait_end(c, 30);
    let tr = p.trace_lines();
    let r = if e.timed_out {
        Some(("one-shot run does not terminate".to_string(), format!("zinoma {:?} still running after 30 s; trace so far {:?}", args, tr.len())))
    } else if e.code != Some(0) {
        Some(("unexpected exit status".to_string(), format!("{:?} {}", e.code, e.stderr.lines().rev().take(3).collect::<Vec<_>>().join(" | "))))
    } else {
        let mut bad = None;
        for t in expect_once {
            let n = tr.iter().filter(|l| **l == format!("start {}", t)).count();
            if n != 1 {
                bad = Some((format!("target executed {} times", n), format!("{} started {} times; trace {:?}", t, n, tr)));
            }
        }
        bad
    };
    p.cleanup();
    r
}

fn yml_diamond(p: &Proj) -> String {
    format!("targets:\n  a:\n    dependencies: [b, c]\n    build: '{}'\n  b:\n    dependencies: [d]\n    build: '{}'\n  c:\n    dependencies: [d]\n    build: '{}'\n  d:\n    build: '{}'\n  z:\n    build: '{}'\n", p.quick("a"), p.quick("b"), p.quick("c"), p.quick("d"), p.quick("z"))
}
fn yml_wide(p: &Proj) -> String {
    let mut s = String::from("targets:\n  all:\n    dependencies: [");
    s += &(0..150).map(|i| format!("t{}", i)).collect::<Vec<_>>().join(", ");
    s += "]\n";
    for i in 0..150 {
        s += &format!("  t{}:\n    build: 'true'\n", i);
    }
    let _ = p;
    s
}
fn yml_agg_chain(p: &Proj) -> String {
    let mut s = String::from("targets:\n");
    for i in 0..120 {
        s += &format!("  a{}:\n    dependencies: [{}]\n", i, if i < 119 { format!("a{}", i + 1) } else { "d".to_string() });
    }
    s += &format!("  d:\n    build: '{}'\n", p.quick("d"));
    s
}

// ---------------------------------------------------------------------------------------
// C01: the three sources of a dependency (listed, implied by X.output, reached through an aggregate) on the real
// binary, where the union is computed from the project files

fn c01_order(yml_root: &dyn Fn(&Proj) -> String, lib: Option<&dyn Fn(&Proj) -> String>, args: &[&str], top: &str, must_precede: &[&str]) -> Option<(String, String)> {
    let p = Proj::new("c01");
    p.write_yml("zinoma.yml", &yml_root(&p));
    if let Some(l) = lib {
        p.write_yml("lib/zinoma.yml", &l(&p));
    }
    let mut c = p.spawn(args);
    let started = p.wait_line(&format!("start {}", top), 25);
    std::thread::sleep(Duration::from_millis(300));
    if alive(&mut c) {
        signal(&c, libc::SIGTERM);
    }
    let e = wait_end(c, 15);
    let tr = p.trace_lines();
    let left = p.leftovers();
    p.cleanup();
    if !started {
        return Some((format!("{} never started", top), format!("exit {:?}; trace {:?}; stderr {}", e.code, tr, e.stderr.lines().rev().take(3).collect::<Vec<_>>().join(" | "))));
    }
    let at = tr.iter().position(|l| l == &format!("start {}", top)).unwrap();
    for m in must_precede {
        if !tr[..at].iter().any(|l| l == m) {
            return Some((format!("{} started before a dependency was ready", top), format!("`{}` is not in the trace before `start {}`: {:?}", m, top, tr)));
        }
    }
    if !left.is_empty() {
        return Some(("process left behind".to_string(), format!("{:?}", left)));
    }
    None
}

fn c01_same_name_two_projects() -> Option<(String, String)> {
    let slow = |p: &Proj, n: &str| p.script(n, &format!("sleep 0.6; echo end {} >> {}", n, p.trace.display()));
    let root = |p: &Proj| format!("name: app\nimports:\n  lib: lib\ntargets:\n  codegen:\n    build: '{}'\n    output: [{{paths: [gen.txt]}}]\n  package:\n    dependencies: [\"lib::codegen\"]\n    input: [codegen.output]\n    build: '{}'\n", slow(p, "codegen"), p.quick("package"));
    let lib = |p: &Proj| format!("name: lib\ntargets:\n  codegen:\n    build: '{}'\n", slow(p, "lib-codegen"));
    c01_order(&root, Some(&lib), &["package"], "package", &["end codegen", "end lib-codegen"])
}

fn c01_three_sources() -> Option<(String, String)> {
    let slow = |p: &Proj, n: &str| p.script(n, &format!("sleep 0.4; echo end {} >> {}", n, p.trace.display()));
    let root = |p: &Proj| {
        format!(
            "targets:\n  listed:\n    build: '{}'\n  implied:\n    build: '{}'\n    output: [{{paths: [i.txt]}}]\n  viaagg:\n    build: '{}'\n  svc:\n    service: '{}'\n  agg:\n    dependencies: [viaagg, inner]\n  inner:\n    dependencies: [svc]\n  top:\n    dependencies: [listed, agg]\n    input: [implied.output]\n    build: '{}'\n",
            slow(p, "listed"),
            slow(p, "implied"),
            slow(p, "viaagg"),
            p.forever("svc"),
            p.quick("top")
        )
    };
    c01_order(&root, None, &["top"], "top", &["end listed", "end implied", "end viaagg", "start svc"])
}

/// the implied dependency holds whatever was loaded first: the producer named before its consumer on the command
/// line, and two consumers of one producer under an aggregate
fn c01_implied_dependency_load_order() -> Option<(String, String)> {
    let slow = |p: &Proj, n: &str| p.script(n, &format!("sleep 0.5; echo x > gen.txt; echo end {} >> {}", n, p.trace.display()));
    let root = |p: &Proj| {
        format!(
            "targets:\n  gen:\n    build: '{}'\n    output: [{{paths: [gen.txt]}}]\n  app:\n    input: [gen.output]\n    build: '{}'\n  lint:\n    input: [gen.output]\n    build: '{}'\n  web:\n    input: [gen.output]\n    service: '{}'\n  check:\n    dependencies: [app, lint]\n",
            slow(p, "gen"),
            p.quick("app"),
            p.quick("lint"),
            p.forever("web")
        )
    };
    for (args, tops) in [(vec!["gen", "app"], vec!["app"]), (vec!["app", "gen"], vec!["app"]), (vec!["check"], vec!["app", "lint"]), (vec!["gen", "web"], vec!["web"]), (vec!["lint", "check"], vec!["app", "lint"])] {
        for top in tops {
            if let Some((fp, d)) = c01_order(&root, None, &args, top, &["end gen"]) {
                return Some((fp, format!("zinoma {:?}: {}", args, d)));
            }
        }
    }
    None
}

pub fn bind_c01(rep: &mut Report) {
    let sc: Vec<Scenario> = vec![
        ("X.output implies the dependency whatever was requested or loaded first", c01_implied_dependency_load_order),
        ("equal target names in two projects: one listed under dependencies, the other's output taken as input", c01_same_name_two_projects),
        ("listed + implied by X.output + reached through nested aggregates (a build and a service)", c01_three_sources),
    ];
    run_scenarios(rep, "C01", sc);
}

/// every script and every command ends: so does the run, also when a `cmd_stdout` command prints far more than a
/// pipe buffer holds (input of one target, output of another)
fn c04_large_command_output() -> Option<(String, String)> {
    let p = Proj::new("c04big");
    let big = "head -c 3000000 /dev/zero | tr \\\\0 x";
    p.write_yml(
        "zinoma.yml",
        &format!("targets:\n  gen:\n    input: [{{cmd_stdout: \"{big}\"}}]\n    output: [{{cmd_stdout: \"{big}; echo out\"}}]\n    build: '{}'\n  use:\n    input: [gen.output]\n    build: '{}'\n", p.quick("gen"), p.quick("use"), big = big),
    );
    for round in 0..2 {
        let c = p.spawn(&["use"]);
        let e = wait_end(c, 60);
        if e.timed_out {
            let tr = p.trace_lines();
            p.cleanup();
            return Some(("run never ends although every script and command ends".to_string(), format!("invocation {} of `zinoma use` still running after 60 s (a command resource prints 3 MB); trace {:?}", round + 1, tr)));
        }
        if e.code != Some(0) {
            p.cleanup();
            return Some(("run failed".into(), format!("{:?} {}", e.code, e.stderr.lines().rev().take(3).collect::<Vec<_>>().join(" | "))));
        }
    }
    let left = p.leftovers();
    p.cleanup();
    if !left.is_empty() {
        return Some(("process left behind".to_string(), format!("{:?}", left)));
    }
    None
}

pub fn bind_c04(rep: &mut Report) {
    let sc: Vec<Scenario> = vec![
        ("command resources printing 3 MB", c04_large_command_output),
        ("diamond", || c04_shape(yml_diamond, &["a"], &["a", "b", "c", "d"])),
        ("dependency requested before its dependent", || c04_shape(yml_diamond, &["d", "a"], &["a", "b", "c", "d"])),
        ("dependent requested before its dependency, twice", || c04_shape(yml_diamond, &["a", "d", "a"], &["a", "b", "c", "d"])),
        ("aggregate over 150 builds (wider than both queues)", || c04_shape(yml_wide, &["all"], &[])),
        ("chain of 120 aggregates, leaf also requested", || c04_shape(yml_agg_chain, &["a0", "d"], &["d"])),
    ];
    run_scenarios(rep, "C04", sc);
}

fn c08_outside_closure() -> Option<(String, String)> {
    let p = Proj::new("c08");
    p.write_yml("zinoma.yml", &yml_diamond(&p));
    let c = p.spawn(&["b"]);
    let e = wait_end(c, 30);
    let tr = p.trace_lines();
    let r = if e.timed_out || e.code != Some(0) {
        Some(("run failed".to_string(), format!("{:?} {}", e.code, e.stderr)))
    } else {
        let started: Vec<&String> = tr.iter().filter(|l| l.starts_with("start ")).collect();
        let mut want = vec!["start b".to_string(), "start d".to_string()];
        let mut got: Vec<String> = started.iter().map(|s| s.to_string()).collect();
        want.sort();
        got.sort();
        if want != got {
            Some(("executed set is not the closure".to_string(), format!("zinoma b executed {:?}", got)))
        } else {
            None
        }
    };
    p.cleanup();
    r
}

/// `--clean b` on a built diamond with inputs and outputs: outputs and records of the targets outside b's closure
/// (a and c) are neither deleted nor rewritten, and their scripts do not run
fn c08_clean_outside_closure() -> Option<(String, String)> {
    let p = Proj::new("c08c");
    write(&p.root.join("in.txt"), b"input");
    let t = |n: &str, deps: &str| format!("  {n}:\n    dependencies: [{deps}]\n    input: [{{paths: [in.txt]}}]\n    output: [{{paths: [out-{n}.txt]}}]\n    build: '{}'\n", p.script(n, &format!("echo built > out-{n}.txt; echo end {n} >> {}", p.trace.display(), n = n)), n = n, deps = deps);
    p.write_yml("zinoma.yml", &format!("imports:\n  lib: lib\ntargets:\n{}{}{}{}", t("a", "b, c"), t("b", "d"), t("c", "d, \"lib::e\""), t("d", "")));
    p.write_yml("lib/zinoma.yml", &format!("name: lib\ntargets:\n  e:\n    input: [{{paths: [in.txt]}}]\n    output: [{{paths: [out-e.txt]}}]\n    build: '{}'\n", p.script("e", &format!("echo built > out-e.txt; echo end e >> {}", p.trace.display()))));
    write(&p.root.join("lib/in.txt"), b"lib input");
    let (code, err, to) = run_to_end(&p, &["a"]);
    if to || code != Some(0) {
        p.cleanup();
        return Some(("set-up: run failed".into(), format!("{:?} {}", code, err)));
    }
    let before = snapshot(&p.root);
    let n0 = p.trace_lines().len();
    let (code, err, to) = run_to_end(&p, &["--clean", "b"]);
    let after = snapshot(&p.root);
    let mut got: Vec<String> = p.trace_lines()[n0..].iter().filter(|l| l.starts_with("start ")).cloned().collect();
    got.sort();
    p.cleanup();
    if to || code != Some(0) {
        return Some(("run failed".into(), format!("--clean b: {:?} {}", code, err)));
    }
    if got != vec!["start b".to_string(), "start d".to_string()] {
        return Some(("executed set is not the closure".to_string(), format!("zinoma --clean b executed {:?}", got)));
    }
    let outside = ["out-a.txt", "out-c.txt", ".zinoma/a.checksums", ".zinoma/c.checksums", "lib/out-e.txt", "lib/.zinoma/lib::e.checksums"];
    for f in outside {
        let k = PathBuf::from(f);
        if before.get(&k).is_none() {
            return Some(("set-up: expected file missing before the clean".into(), f.to_string()));
        }
        if after.get(&k) != before.get(&k) {
            return Some(("a target outside the closure was cleaned or had its record touched".to_string(), format!("zinoma --clean b: {} was {}", f, if after.get(&k).is_none() { "deleted" } else { "rewritten" })));
        }
    }
    None
}

/// a damaged record of a requested target is discarded; the recorded state of a target outside the closure is not touched
fn c08_corrupted_record_and_sibling_state() -> Option<(String, String)> {
    let p = Proj::new("c08r");
    write(&p.root.join("a.txt"), b"a");
    write(&p.root.join("z.txt"), b"z");
    p.write_yml("zinoma.yml", &format!("targets:\n  a:\n    build: '{}'\n    input: [{{paths: [a.txt]}}]\n  z:\n    build: '{}'\n    input: [{{paths: [z.txt]}}]\n", p.quick("a"), p.quick("z")));
    let (code, err, to) = run_to_end(&p, &["a", "z"]);
    if to || code != Some(0) {
        p.cleanup();
        return Some(("set-up run failed".into(), format!("{:?} {}", code, err)));
    }
    let rec_a = p.root.join(".zinoma/a.checksums");
    let rec_z = p.root.join(".zinoma/z.checksums");
    let (za, zb) = (std::fs::read(&rec_a).unwrap_or_default(), std::fs::read(&rec_z).unwrap_or_default());
    if za.len() < 8 || zb.len() < 8 {
        p.cleanup();
        return Some(("set-up: records missing".into(), String::new()));
    }
    std::fs::write(&rec_a, &za[..za.len() / 2]).unwrap(); // truncated by a crash
    write(&p.root.join(".zinoma/notes.txt"), b"unrelated file in the work dir");
    let _ = std::fs::remove_file(&p.trace);
    let (code, err, to) = run_to_end(&p, &["a"]);
    let tr1 = p.trace_lines();
    let z_after = std::fs::read(&rec_z).ok();
    let notes = p.root.join(".zinoma/notes.txt").exists();
    let _ = std::fs::remove_file(&p.trace);
    let (code2, _e2, to2) = run_to_end(&p, &["z"]);
    let tr2 = p.trace_lines();
    let r = if to || code != Some(0) {
        Some(("run with a damaged record failed".to_string(), format!("{:?} {}", code, err)))
    } else if !tr1.iter().any(|l| l == "start a") || tr1.iter().any(|l| l == "start z") {
        Some(("wrong targets ran".to_string(), format!("zinoma a ran {:?}", tr1)))
    } else if z_after.as_deref() != Some(&zb[..]) || !notes {
        Some(("state of a target outside the closure was touched".to_string(), format!("z.checksums {} , notes.txt present: {}", if z_after.is_none() { "deleted" } else { "changed" }, notes)))
    } else if to2 || code2 != Some(0) || !tr2.is_empty() {
        Some(("the sibling target was rebuilt afterwards".to_string(), format!("zinoma z ran {:?}", tr2)))
    } else {
        None
    };
    p.cleanup();
    r
}

/// closure across projects with equal target names: a named root `app` with its own `gen`, an imported `lib` with
/// `gen`; `bundle` takes lib::gen.output: exactly lib::gen and bundle run, each once (also with `--clean bundle`)
fn c08_cross_project_closure() -> Option<(String, String)> {
    for args in [vec!["bundle"], vec!["app::bundle", "bundle"], vec!["--clean", "bundle"]] {
        let p = Proj::new("c08x");
        p.write_yml(
            "zinoma.yml",
            &format!(
                "name: app\nimports:\n  lib: lib\ntargets:\n  gen:\n    build: '{}'\n    output: [{{paths: [app-gen.txt]}}]\n  bundle:\n    input: [\"lib::gen.output\"]\n    build: '{}'\n",
                p.script("app-gen", &format!("echo x > app-gen.txt; echo end app-gen >> {}", p.trace.display())),
                p.quick("bundle")
            ),
        );
        p.write_yml("lib/zinoma.yml", &format!("name: lib\ntargets:\n  gen:\n    build: '{}'\n    output: [{{paths: [lib-gen.txt]}}]\n  pack:\n    dependencies: [gen]\n    build: '{}'\n", p.script("lib-gen", &format!("echo x > lib-gen.txt; echo end lib-gen >> {}", p.trace.display())), p.quick("lib-pack")));
        if args == vec!["bundle"] {
            // a bare name inside an imported project means a target of that project
            let (code, err, to) = run_to_end(&p, &["lib::pack"]);
            let mut got: Vec<String> = p.trace_lines().into_iter().filter(|l| l.starts_with("start ")).collect();
            got.sort();
            if to || code != Some(0) || got != vec!["start lib-gen".to_string(), "start lib-pack".to_string()] {
                p.cleanup();
                return Some(("executed set is not the closure (bare dependency name inside an imported project)".to_string(), format!("zinoma lib::pack: exit {:?}, scripts {:?}, expected exactly lib-gen and lib-pack; {}", code, got, err.lines().rev().take(2).collect::<Vec<_>>().join(" | "))));
            }
            let _ = std::fs::remove_file(&p.trace);
            let _ = std::fs::remove_file(p.root.join("lib/lib-gen.txt"));
        }
        let (code, err, to) = run_to_end(&p, &args);
        let mut got: Vec<String> = p.trace_lines().into_iter().filter(|l| l.starts_with("start ")).collect();
        got.sort();
        let files_ok = p.root.join("lib/lib-gen.txt").exists() && !p.root.join("app-gen.txt").exists();
        p.cleanup();
        if to {
            return Some(("run does not end".to_string(), format!("zinoma {:?}", args)));
        }
        if code != Some(0) {
            return Some(("a valid cross-project reference is refused".to_string(), format!("zinoma {:?}: exit {:?}: {}", args, code, err.lines().rev().take(3).collect::<Vec<_>>().join(" | "))));
        }
        if got != vec!["start bundle".to_string(), "start lib-gen".to_string()] || !files_ok {
            return Some(("executed set is not the closure (equal target names in two projects)".to_string(), format!("zinoma {:?}: scripts {:?}, expected exactly lib-gen and bundle once each; lib-gen.txt present and app-gen.txt absent: {}", args, got, files_ok)));
        }
    }
    None
}

pub fn bind_c08(rep: &mut Report) {
    let sc: Vec<Scenario> = vec![
        ("named root and imported project with equal target names: X.output across projects", c08_cross_project_closure),
        ("diamond, every target once", || c04_shape(yml_diamond, &["a", "a", "d"], &["a", "b", "c", "d"])),
        ("request b: only b and d run", c08_outside_closure),
        ("--clean b: nothing outside b's closure is cleaned, touched or run", c08_clean_outside_closure),
        ("damaged record of a requested target, sibling state untouched", c08_corrupted_record_and_sibling_state),
    ];
    run_scenarios(rep, "C08", sc);
}

// ---------------------------------------------------------------------------------------
// C07

fn c07_failure(args: &'static [&'static str]) -> Option<(String, String)> {
    let p = Proj::new("c07");
    p.write_yml(
        "zinoma.yml",
        &format!(
            "targets:\n  bad:\n    build: '{}'\n  mid:\n    dependencies: [bad]\n  top:\n    dependencies: [mid]\n    build: '{}'\n  svc:\n    dependencies: [bad]\n    service: '{}'\n  both:\n    dependencies: [top, svc]\n",
            p.script("bad", "exit 3"),
            p.quick("top"),
            p.forever("svc")
        ),
    );
    let c = p.spawn(args);
    let e = wait_end(c, 20);
    let tr = p.trace_lines();
    let left = p.leftovers();
    let r = if e.timed_out {
        Some(("run does not end after a failure".to_string(), String::new()))
    } else if e.code == Some(0) {
        Some(("exit status 0 although a target failed".to_string(), format!("trace {:?}", tr)))
    } else if !e.stderr.contains("bad") {
        Some(("error does not name the failed target".to_string(), e.stderr.clone()))
    } else if tr.iter().any(|l| l == "start top" || l == "start svc") {
        Some(("a dependent of the failed target was started".to_string(), format!("trace {:?}", tr)))
    } else if !left.is_empty() {
        Some(("process left behind".to_string(), format!("{:?}", left)))
    } else {
        None
    };
    p.cleanup();
    r
}

/// a multi-command script fails at the command that fails (zinoma runs scripts with `sh -e`): the later commands do
/// not run, the invocation fails naming the target, the dependent does not start, nothing is recorded as done
fn c07_failing_command_inside_a_script() -> Option<(String, String)> {
    let p = Proj::new("c07m");
    write(&p.root.join("in.txt"), b"input");
    let tr = p.trace.display().to_string();
    p.write_yml(
        "zinoma.yml",
        &format!("targets:\n  gen:\n    input: [{{paths: [in.txt]}}]\n    build: |\n      echo start gen >> {tr}\n      cp no-such-file.txt copy.txt\n      echo end gen >> {tr}\n  top:\n    dependencies: [gen]\n    build: '{}'\n", p.quick("top"), tr = tr),
    );
    for round in 0..2 {
        let n0 = p.trace_lines().len();
        let (code, err, to) = run_to_end(&p, &["top"]);
        let tr: Vec<String> = p.trace_lines()[n0..].to_vec();
        let bad = if to {
            Some("the invocation does not end".to_string())
        } else if code == Some(0) {
            Some(format!("the invocation exits 0 although a command of gen's script failed; scripts {:?}", tr))
        } else if !err.contains("gen") {
            Some(format!("the error does not name the failing target: {}", err.lines().rev().take(3).collect::<Vec<_>>().join(" | ")))
        } else if tr.iter().any(|l| l == "start top") {
            Some(format!("the dependent started: {:?}", tr))
        } else if !tr.iter().any(|l| l == "start gen") {
            Some(format!("invocation {}: gen's script did not run again after its failure: {:?}", round + 1, tr))
        } else {
            None
        };
        if let Some(b) = bad {
            p.cleanup();
            return Some(("a failing command inside a multi-command script does not fail the target".to_string(), b));
        }
    }
    p.cleanup();
    None
}

/// watch mode: a build over a service fails; the service does not depend on it and keeps running (same instance)
/// through the failure and through the later successful rebuild
fn c07_watch_failure_leaves_the_service_alone() -> Option<(String, String)> {
    let p = Proj::new("c07w");
    write(&p.root.join("src.txt"), b"bad");
    let tr = p.trace.display().to_string();
    p.write_yml(
        "zinoma.yml",
        &format!("targets:\n  db:\n    service: '{}'\n  app:\n    dependencies: [db]\n    input: [{{paths: [src.txt]}}]\n    build: '{}'\n", p.forever("db"), p.script("app", &format!("grep -q good src.txt; echo end app >> {}", tr))),
    );
    let mut c = p.spawn(&["--watch", "app"]);
    let fail = |c: Child, p: &Proj, fp: String, d: String| -> Option<(String, String)> {
        let e = wait_end_kill(c);
        let r = Some((fp, format!("{} ; trace {:?} ; stderr tail: {}", d, p.trace_lines(), e)));
        p.cleanup();
        r
    };
    if !p.wait_line("start db", 30) || !p.wait_line("start app", 30) {
        return fail(c, &p, "set-up: targets did not start".into(), String::new());
    }
    std::thread::sleep(Duration::from_millis(1500));
    if !alive(&mut c) {
        return fail(c, &p, "watch run ended after a failure".into(), String::new());
    }
    let services = |p: &Proj| p.leftovers().into_iter().filter(|(_, cmd)| cmd.contains("sleep 1000")).count();
    if services(&p) != 1 {
        return fail(c, &p, "a service the failed build depends on was stopped (it does not depend on the failed target)".into(), format!("{} service processes alive 1.5 s after app failed", services(&p)));
    }
    write(&p.root.join("src.txt"), b"good");
    if !p.wait_line("end app", 30) {
        return fail(c, &p, "the fixed input was never rebuilt".into(), String::new());
    }
    std::thread::sleep(Duration::from_millis(500));
    let starts = p.trace_lines().iter().filter(|l| *l == "start db").count();
    if services(&p) != 1 || starts != 1 {
        return fail(c, &p, "the service was stopped or restarted although nothing below it changed".into(), format!("{} service processes alive, db started {} times", services(&p), starts));
    }
    signal(&c, libc::SIGINT);
    let e = wait_end(c, 15);
    let left = p.leftovers();
    p.cleanup();
    if e.timed_out {
        return Some(("SIGINT not honoured".to_string(), String::new()));
    }
    if !left.is_empty() {
        return Some(("process left behind".to_string(), format!("{:?}", left)));
    }
    None
}

pub fn bind_c07(rep: &mut Report) {
    let sc: Vec<Scenario> = vec![("watch mode: a build over a service fails, the service keeps running", c07_watch_failure_leaves_the_service_alone), ("a multi-command script whose second command fails", c07_failing_command_inside_a_script), ("failing build below an aggregate below a build", || c07_failure(&["top"])), ("failing build below a build and a service", || c07_failure(&["both"])), ("the failing build requested directly", || c07_failure(&["bad"]))];
    run_scenarios(rep, "C07", sc);
}

// ---------------------------------------------------------------------------------------
// C20: aggregate vs its dependencies (metamorphic pair of real invocations)

fn c20_pair(with_service: bool) -> Option<(String, String)> {
    let run = |args: Vec<&str>| -> (Vec<String>, Option<i32>, bool, Vec<(i32, String)>) {
        let p = Proj::new("c20");
        let svc = if with_service { format!("  s:\n    service: '{}'\n", p.forever("s")) } else { format!("  s:\n    build: '{}'\n", p.quick("s")) };
        p.write_yml("zinoma.yml", &format!("targets:\n  b:\n    build: '{}'\n{}  inner:\n    dependencies: [s]\n  agg:\n    dependencies: [b, inner]\n  empty:\n    dependencies: []\n", p.quick("b"), svc));
        let mut c = p.spawn(&args);
        // wait for the leaves to have started
        let _ = p.wait_line("start s", 20);
        let _ = p.wait_line("end b", 20);
        std::thread::sleep(Duration::from_millis(500));
        let still = alive(&mut c);
        if still {
            signal(&c, libc::SIGTERM);
        }
        let e = wait_end(c, 15);
        let mut tr: Vec<String> = p.trace_lines().into_iter().filter(|l| l.starts_with("start ")).collect();
        tr.sort();
        let left = p.leftovers();
        p.cleanup();
        (tr, if still { None } else { e.code }, still, left)
    };
    let a = run(vec!["agg"]);
    let d = run(vec!["b", "inner"]);
    if a.0 != d.0 || a.2 != d.2 || a.1 != d.1 {
        return Some(("aggregate not equivalent to its dependencies".to_string(), format!("zinoma agg: scripts {:?} alive-after {} exit {:?}; zinoma b inner: scripts {:?} alive-after {} exit {:?}", a.0, a.2, a.1, d.0, d.2, d.1)));
    }
    if a.2 != with_service {
        return Some(("liveness after the run is wrong".to_string(), format!("alive-after = {} with_service = {}", a.2, with_service)));
    }
    if !a.3.is_empty() || !d.3.is_empty() {
        return Some(("process left behind".to_string(), format!("{:?} {:?}", a.3, d.3)));
    }
    None
}

fn c20_empty() -> Option<(String, String)> {
    let p = Proj::new("c20e");
    p.write_yml("zinoma.yml", &format!("targets:\n  empty:\n    dependencies: []\n  over:\n    dependencies: [empty]\n  b:\n    build: '{}'\n", p.quick("b")));
    let c = p.spawn(&["over"]);
    let e = wait_end(c, 20);
    let tr = p.trace_lines();
    let r = if e.timed_out {
        Some(("an empty aggregate never completes".to_string(), String::new()))
    } else if e.code != Some(0) || !tr.is_empty() {
        Some(("empty aggregate: unexpected effect".to_string(), format!("exit {:?} trace {:?}", e.code, tr)))
    } else {
        None
    };
    p.cleanup();
    r
}

/// "the same scripts run or are skipped": a sequence of invocations (plain, plain again, --clean, after an edit)
/// naming the aggregate, its inner aggregate, or the builds themselves
fn c20_incremental() -> Option<(String, String)> {
    let run = |req: Vec<&str>| -> Vec<(Vec<String>, Option<i32>)> {
        let p = Proj::new("c20i");
        write(&p.root.join("in1.txt"), b"one");
        write(&p.root.join("in2.txt"), b"two");
        p.write_yml(
            "zinoma.yml",
            &format!("targets:\n  b1:\n    build: '{}'\n    input: [{{paths: [in1.txt]}}]\n  b2:\n    build: '{}'\n    input: [{{paths: [in2.txt]}}]\n  inner:\n    dependencies: [b2]\n  agg:\n    dependencies: [b1, inner]\n", p.quick("b1"), p.quick("b2")),
        );
        let mut out = vec![];
        let mut step = |flags: &[&str]| {
            let before = p.trace_lines().len();
            let mut args: Vec<&str> = flags.to_vec();
            args.extend(req.iter().cloned());
            let (code, _, _) = run_to_end(&p, &args);
            let mut tr: Vec<String> = p.trace_lines()[before..].iter().filter(|l| l.starts_with("start ")).cloned().collect();
            tr.sort();
            out.push((tr, code));
        };
        step(&[]);
        step(&[]);
        step(&["--clean"]);
        step(&[]);
        write(&p.root.join("in1.txt"), b"one, edited");
        step(&[]);
        p.cleanup();
        out
    };
    let direct = run(vec!["b1", "b2"]);
    let both = vec!["start b1".to_string(), "start b2".to_string()];
    let expected: Vec<(Vec<String>, Option<i32>)> = vec![(both.clone(), Some(0)), (vec![], Some(0)), (both.clone(), Some(0)), (vec![], Some(0)), (vec!["start b1".to_string()], Some(0))];
    if direct != expected {
        return Some(("naming the builds: run / skip sequence is not the expected one".to_string(), format!("got {:?}, expected {:?} for: plain, plain, --clean, plain, edit in1 + plain", direct, expected)));
    }
    for req in [vec!["agg"], vec!["b1", "inner"], vec!["agg", "b2"]] {
        let a = run(req.clone());
        if a != direct {
            return Some(("aggregate not equivalent to its dependencies over a sequence of invocations".to_string(), format!("zinoma [plain, plain, --clean, plain, edit+plain] {:?}: {:?}; naming b1 b2: {:?}", req, a, direct)));
        }
    }
    None
}

pub fn bind_c20(rep: &mut Report) {
    let sc: Vec<Scenario> = vec![("aggregate over a build and a nested aggregate over a service", || c20_pair(true)), ("aggregate over builds only", || c20_pair(false)), ("aggregate over an empty aggregate", c20_empty), ("run / skip / --clean sequences naming the aggregate or its builds", c20_incremental)];
    run_scenarios(rep, "C20", sc);
}

// ---------------------------------------------------------------------------------------
// C09 / C14: rejected configurations run nothing and delete nothing, also with --clean

fn rejected(yml: &'static str, extra: Option<(&'static str, &'static str)>, args: &'static [&'static str]) -> Option<(String, String)> {
    let p = Proj::new("rej");
    let text = yml.replace("$TRACE", &p.trace.display().to_string());
    p.write_yml("zinoma.yml", &text);
    if let Some((rel, t)) = extra {
        p.write_yml(rel, &t.replace("$TRACE", &p.trace.display().to_string()));
    }
    write(&p.root.join("out/precious.txt"), b"declared output that must survive a refused invocation");
    write(&p.root.join(".zinoma/x.checksums"), b"state that must survive");
    let before = snapshot(&p.root);
    let c = p.spawn(args);
    let e = wait_end(c, 20);
    let after = snapshot(&p.root);
    let tr = p.trace_lines();
    let r = if e.timed_out {
        Some(("invalid project hangs".to_string(), format!("zinoma {:?}", args)))
    } else if e.code == Some(0) {
        Some(("invalid project accepted".to_string(), format!("zinoma {:?} exited 0; trace {:?}", args, tr)))
    } else if e.signal.is_some() || e.stderr.contains("panicked") {
        Some(("invalid project crashes zinoma".to_string(), format!("signal {:?}; {}", e.signal, e.stderr.lines().rev().take(3).collect::<Vec<_>>().join(" | "))))
    } else if !tr.is_empty() {
        Some(("a script ran before the project was refused".to_string(), format!("{:?}", tr)))
    } else if before != after {
        Some(("something was deleted or created before the project was refused".to_string(), format!("zinoma {:?}: {} entries before, {} after", args, before.len(), after.len())))
    } else {
        None
    };
    p.cleanup();
    r
}

const Y_CYCLE: &str = "targets:\n  a:\n    dependencies: [b]\n    build: 'echo start a >> $TRACE'\n    output: [{paths: [out]}]\n  b:\n    dependencies: [c]\n    build: 'echo start b >> $TRACE'\n  c:\n    build: 'echo start c >> $TRACE'\n    input: [a.output]\n";
const Y_UNKNOWN: &str = "targets:\n  a:\n    dependencies: [ghost]\n    build: 'echo start a >> $TRACE'\n    output: [{paths: [out]}]\n  ok:\n    build: 'echo start ok >> $TRACE'\n    output: [{paths: [out]}]\n";
const Y_SVC_OUTPUT: &str = "targets:\n  s:\n    service: 'echo start s >> $TRACE'\n  a:\n    build: 'echo start a >> $TRACE'\n    input: [s.output]\n    output: [{paths: [out]}]\n";
const Y_BOGUS: &str = "targets:\n  a:\n    build: 'echo start a >> $TRACE'\n    output: [{paths: [out]}]\n    bogus: 1\n";
const Y_DUP_ROOT: &str = "imports:\n  dup: x\ntargets:\n  a:\n    dependencies: ['dup::t']\n    build: 'echo start a >> $TRACE'\n    output: [{paths: [out]}]\n";
const Y_DUP_X: &str = "name: dup\nimports:\n  dup: inner\ntargets:\n  t:\n    build: 'echo start outer >> $TRACE'\n";

/// two projects importing each other, acyclic targets across them: exactly the closure runs
fn c09_mutual_imports() -> Option<(String, String)> {
    let p = Proj::new("c09m");
    p.write_yml("zinoma.yml", &format!("name: app\nimports:\n  lib: lib\ntargets:\n  top:\n    dependencies: [\"lib::build\"]\n    build: '{}'\n  gen:\n    build: '{}'\n  unused:\n    build: '{}'\n", p.quick("top"), p.quick("gen"), p.quick("unused")));
    p.write_yml("lib/zinoma.yml", &format!("name: lib\nimports:\n  app: ..\ntargets:\n  build:\n    dependencies: [\"app::gen\"]\n    build: '{}'\n", p.quick("build")));
    let (code, err, to) = run_to_end(&p, &["top"]);
    let mut got: Vec<String> = p.trace_lines().into_iter().filter(|l| l.starts_with("start ")).collect();
    got.sort();
    let r = if to {
        Some(("mutually importing projects hang".to_string(), String::new()))
    } else if code != Some(0) {
        Some(("a valid project (two projects importing each other, acyclic targets) is refused or crashes".to_string(), format!("exit {:?}: {}", code, err.lines().rev().take(3).collect::<Vec<_>>().join(" | "))))
    } else if got != vec!["start build".to_string(), "start gen".to_string(), "start top".to_string()] {
        Some(("executed set is not the closure".to_string(), format!("{:?}", got)))
    } else {
        None
    };
    p.cleanup();
    r
}

pub fn bind_c09(rep: &mut Report) {
    let sc: Vec<Scenario> = vec![
        ("two projects importing each other, acyclic targets", c09_mutual_imports),
        ("cycle through dependencies and .output", || rejected(Y_CYCLE, None, &["a"])),
        ("cycle, --clean", || rejected(Y_CYCLE, None, &["--clean", "a"])),
        ("cycle, --clean alone", || rejected(Y_CYCLE, None, &["--clean"])),
        ("unknown dependency", || rejected(Y_UNKNOWN, None, &["--clean", "a"])),
        ("unknown dependency, --clean alone (every target is resolved)", || rejected(Y_UNKNOWN, None, &["--clean"])),
        (".output of a service", || rejected(Y_SVC_OUTPUT, None, &["--clean", "a"])),
    ];
    run_scenarios(rep, "C09", sc);
}

pub fn bind_c14(rep: &mut Report) {
    let sc: Vec<Scenario> = vec![
        ("unknown key in a target", || rejected(Y_BOGUS, None, &["--clean", "a"])),
        ("unknown key, --clean alone", || rejected(Y_BOGUS, None, &["--clean"])),
        ("two projects with the same name", || rejected(Y_DUP_ROOT, Some(("x/zinoma.yml", Y_DUP_X)), &["--clean", "a"])),
        ("two projects with the same name, --clean alone", || rejected(Y_DUP_ROOT, Some(("x/zinoma.yml", Y_DUP_X)), &["--clean"])),
        ("reference to an unknown target, --clean alone: the error comes before anything is deleted", || rejected(Y_UNKNOWN, None, &["--clean"])),
        ("dependency cycle, --clean alone", || rejected(Y_CYCLE, None, &["--clean"])),
        ("output of a service as input, --clean alone", || rejected(Y_SVC_OUTPUT, None, &["--clean"])),
    ];
    run_scenarios(rep, "C14", sc);
}

#[allow(dead_code)]
pub fn unused(_: &Path) {}

// ---------------------------------------------------------------------------------------
// C03 / C13 / C19 / C06+C16: incremental decisions, names and watch mode on the real binary

fn run_to_end(p: &Proj, args: &[&str]) -> (Option<i32>, String, bool) {
    let c = p.spawn(args);
    let e = wait_end(c, 30);
    (e.code, e.stderr, e.timed_out)
}

/// second and third invocation over an untouched multi-project tree run no script of a target with inputs
fn c03_untouched_tree() -> Option<(String, String)> {
    let p = Proj::new("c03");
    write(&p.root.join("src/a.txt"), b"a");
    write(&p.root.join("pa/v.txt"), b"from-a");
    write(&p.root.join("pb/v.txt"), b"from-b");
    let q = |n: &str| p.quick(n);
    p.write_yml("pa/zinoma.yml", &format!("name: pa\ntargets:\n  p:\n    build: '{}'\n    input: [{{paths: [v.txt]}}]\n    output: [{{cmd_stdout: \"cat v.txt\"}}]\n", q("pa-p")));
    p.write_yml("pb/zinoma.yml", &format!("name: pb\ntargets:\n  p:\n    build: '{}'\n    input: [{{paths: [v.txt]}}]\n    output: [{{cmd_stdout: \"cat v.txt\"}}]\n", q("pb-p")));
    p.write_yml(
        "zinoma.yml",
        &format!(
            "imports:\n  pa: pa\n  pb: pb\ntargets:\n  use:\n    build: '{}'\n    input: [\"pa::p.output\", \"pb::p.output\", {{paths: [src]}}]\n    output: [{{paths: [out.txt]}}]\n  noinput:\n    build: '{}'\n  all:\n    dependencies: [use, noinput]\n",
            p.script("use", &format!("echo built > out.txt; echo end use >> {}", p.trace.display())),
            q("noinput")
        ),
    );
    let mut runs = vec![];
    for _ in 0..3 {
        let before = p.trace_lines().len();
        let (code, err, to) = run_to_end(&p, &["all"]);
        if to || code != Some(0) {
            p.cleanup();
            return Some(("run failed".into(), format!("{:?} {}", code, err)));
        }
        let new: Vec<String> = p.trace_lines()[before..].iter().filter(|l| l.starts_with("start ")).cloned().collect();
        runs.push(new);
    }
    let mut r = if runs[0].len() != 4 {
        Some(("first run did not execute every target".to_string(), format!("{:?}", runs[0])))
    } else if runs[1] != vec!["start noinput".to_string()] || runs[2] != vec!["start noinput".to_string()] {
        Some(("an untouched tree was rebuilt (or a no-input target skipped)".to_string(), format!("second run {:?}, third run {:?} (expected only the target without input)", runs[1], runs[2])))
    } else {
        None
    };
    if r.is_none() {
        // an invocation about an unrelated target (here: --clean of the input-less one) changes nothing for the others
        let (code, err, to) = run_to_end(&p, &["--clean", "noinput"]);
        let before = p.trace_lines().len();
        let (code2, err2, to2) = run_to_end(&p, &["all"]);
        let new: Vec<String> = p.trace_lines()[before..].iter().filter(|l| l.starts_with("start ")).cloned().collect();
        if to || to2 || code != Some(0) || code2 != Some(0) {
            r = Some(("run failed".into(), format!("{:?} {} / {:?} {}", code, err, code2, err2)));
        } else if new != vec!["start noinput".to_string()] {
            r = Some(("an untouched tree was rebuilt after `--clean` of an unrelated target".to_string(), format!("zinoma --clean noinput; zinoma all executed {:?} (expected only the target without input)", new)));
        }
    }
    p.cleanup();
    r
}

/// a target with a very large input tree (15 000 files: its record exceeds a megabyte) is skipped on an untouched
/// tree like any other
fn c03_large_input_tree() -> Option<(String, String)> {
    let p = Proj::new("c03big");
    for i in 0..15000 {
        write(&p.root.join(format!("big/d{:02}/input-file-{:05}.dat", i % 50, i)), b"");
    }
    write(&p.root.join("small/a.txt"), b"a");
    p.write_yml("zinoma.yml", &format!("targets:\n  big:\n    input: [{{paths: [big]}}]\n    build: '{}'\n  small:\n    input: [{{paths: [small]}}]\n    build: '{}'\n", p.quick("big"), p.quick("small")));
    let mut runs = vec![];
    for _ in 0..3 {
        let before = p.trace_lines().len();
        let c = p.spawn(&["big", "small"]);
        let e = wait_end(c, 120);
        if e.timed_out || e.code != Some(0) {
            p.cleanup();
            return Some(("run failed".into(), format!("{:?} {}", e.code, e.stderr.lines().rev().take(3).collect::<Vec<_>>().join(" | "))));
        }
        let mut new: Vec<String> = p.trace_lines()[before..].iter().filter(|l| l.starts_with("start ")).cloned().collect();
        new.sort();
        runs.push(new);
    }
    let rec = std::fs::metadata(p.root.join(".zinoma/big.checksums")).map(|m| m.len()).unwrap_or(0);
    p.cleanup();
    if runs[0] != vec!["start big".to_string(), "start small".to_string()] {
        return Some(("first run did not execute every target".to_string(), format!("{:?}", runs[0])));
    }
    if !runs[1].is_empty() || !runs[2].is_empty() {
        return Some(("an untouched tree was rebuilt: target with a very large input tree".to_string(), format!("second run {:?}, third run {:?}; record of `big` has {} bytes", runs[1], runs[2], rec)));
    }
    None
}

pub fn bind_c03(rep: &mut Report) {
    let sc: Vec<Scenario> = vec![("a target with 15 000 input files", c03_large_input_tree), ("untouched multi-project tree, same command text in two projects", c03_untouched_tree)];
    run_scenarios(rep, "C03", sc);
}

/// producer in an imported project: editing its output re-runs the consumer, unchanged outputs skip it
fn c13_behaviour() -> Option<(String, String)> {
    let p = Proj::new("c13");
    write(&p.root.join("lib/src/in.txt"), b"v1");
    write(&p.root.join("own.txt"), b"own");
    // identical relative path in both projects
    write(&p.root.join("gen/o.txt"), b"consumer's own same-named file");
    p.write_yml("lib/zinoma.yml", &format!("name: lib\ntargets:\n  p:\n    build: '{}'\n    input: [{{paths: [src]}}]\n    output: [{{paths: [gen], extensions: [txt]}}]\n", p.script("p", &format!("mkdir -p gen; cp src/in.txt gen/o.txt; echo x > gen/ignored.bin; echo end p >> {}", p.trace.display()))));
    p.write_yml("zinoma.yml", &format!("imports:\n  lib: lib\ntargets:\n  c:\n    build: '{}'\n    input: [{{paths: [own.txt]}}, \"lib::p.output\"]\n    output: [{{paths: [c.out]}}]\n", p.script("c", &format!("cat lib/gen/o.txt > c.out; echo end c >> {}", p.trace.display()))));
    let step = |what: &str, expect: &[&str]| -> Option<(String, String)> {
        let before = p.trace_lines().len();
        let (code, err, to) = run_to_end(&p, &["c"]);
        if to || code != Some(0) {
            return Some(("run failed".into(), format!("{}: {:?} {}", what, code, err)));
        }
        let new: Vec<String> = p.trace_lines()[before..].iter().filter(|l| l.starts_with("start ")).cloned().collect();
        let want: Vec<String> = expect.iter().map(|s| format!("start {}", s)).collect();
        if new != want {
            return Some((format!("after {}: wrong set of scripts ran", what), format!("ran {:?}, expected {:?}", new, want)));
        }
        None
    };
    let mut r = step("first run", &["p", "c"]);
    if r.is_none() {
        r = step("nothing changed", &[]);
    }
    if r.is_none() {
        // the consumer's own same-named file and a non-matching file in the producer's output directory do not count
        write(&p.root.join("gen/o.txt"), b"edited, but not declared by anybody");
        write(&p.root.join("lib/gen/ignored.bin"), b"edited, extension filtered out");
        r = step("edits outside the inherited resources", &[]);
    }
    if r.is_none() {
        write(&p.root.join("lib/gen/o.txt"), b"producer output edited by hand");
        // the producer's output was tampered with: the producer re-runs (its output state differs) and restores
        // the very content the consumer was built from, so the consumer is legitimately skipped
        r = step("the producer's output file was edited by hand", &["p"]);
    }
    if r.is_none() {
        write(&p.root.join("lib/src/in.txt"), b"v2");
        r = step("the producer's input changed", &["p", "c"]);
    }
    p.cleanup();
    r
}

pub fn bind_c13(rep: &mut Report) {
    let sc: Vec<Scenario> = vec![("producer in an imported project, extension-filtered output, same relative paths", c13_behaviour)];
    run_scenarios(rep, "C13", sc);
}

/// both spellings of a root target run it once; equal names in different projects do not interfere
fn c19_spellings() -> Option<(String, String)> {
    let p = Proj::new("c19");
    p.write_yml("a/zinoma.yml", &format!("name: a\ntargets:\n  t:\n    dependencies: [u]\n    build: '{}'\n  u:\n    build: '{}'\n", p.quick("a::t"), p.quick("a::u")));
    p.write_yml("zinoma.yml", &format!("name: r\nimports:\n  a: a\ntargets:\n  t:\n    dependencies: [u]\n    build: '{}'\n  u:\n    build: '{}'\n  both:\n    dependencies: [t, \"a::t\"]\n", p.quick("r::t"), p.quick("r::u")));
    let check = |args: &[&str], want: &[&str]| -> Option<(String, String)> {
        let _ = std::fs::remove_file(&p.trace);
        let (code, err, to) = run_to_end(&p, args);
        if to || code != Some(0) {
            return Some(("run failed".into(), format!("{:?}: {:?} {}", args, code, err)));
        }
        let mut got: Vec<String> = p.trace_lines().into_iter().filter(|l| l.starts_with("start ")).map(|l| l[6..].to_string()).collect();
        got.sort();
        let mut w: Vec<String> = want.iter().map(|s| s.to_string()).collect();
        w.sort();
        if got != w {
            return Some((format!("zinoma {}: wrong targets ran", args.join(" ")), format!("ran {:?}, expected {:?}", got, w)));
        }
        None
    };
    let mut r = check(&["t", "r::t"], &["r::t", "r::u"]);
    if r.is_none() {
        r = check(&["a::t"], &["a::t", "a::u"]);
    }
    if r.is_none() {
        r = check(&["both"], &["r::t", "r::u", "a::t", "a::u"]);
    }
    // equal target names in different projects, requested together, in both orders and spellings
    if r.is_none() {
        r = check(&["t", "a::t"], &["r::t", "r::u", "a::t", "a::u"]);
    }
    if r.is_none() {
        r = check(&["a::t", "r::t"], &["r::t", "r::u", "a::t", "a::u"]);
    }
    if r.is_none() {
        r = check(&["a::u", "u"], &["r::u", "a::u"]);
    }
    if r.is_none() {
        r = check(&["--clean", "u", "a::u", "r::u"], &["r::u", "a::u"]);
    }
    if r.is_none() {
        // refused spellings: nothing runs
        for bad in [vec!["a::nope"], vec!["zz::t"], vec!["u", "nope"]] {
            let _ = std::fs::remove_file(&p.trace);
            let (code, _err, to) = run_to_end(&p, &bad);
            if to || code == Some(0) || !p.trace_lines().is_empty() {
                r = Some(("unknown spelling not refused up front".to_string(), format!("{:?}: exit {:?}, trace {:?}", bad, code, p.trace_lines())));
                break;
            }
        }
    }
    p.cleanup();
    r
}

/// two different loaded projects declaring one name: `name::target` could denote two targets, so the tree has to
/// be refused whatever the shape of the import graph (named or unnamed root, the two reached through different
/// importers, another project's directory sorting between them)
fn c19_same_name_twice() -> Option<(String, String)> {
    for (label, root_name) in [("unnamed root", None), ("named root", Some("app"))] {
        let p = Proj::new("c19d");
        let q = |n: &str| p.quick(n);
        let head = root_name.map(|n| format!("name: {}\n", n)).unwrap_or_default();
        p.write_yml("zinoma.yml", &format!("{}imports:\n  a: a\n  b: b\ntargets:\n  all:\n    dependencies: [\"a::pack\", \"b::pack\"]\n", head));
        p.write_yml("a/zinoma.yml", &format!("name: a\nimports:\n  common: common\ntargets:\n  pack:\n    dependencies: [\"common::gen\"]\n    build: '{}'\n", q("a-pack")));
        p.write_yml("b/zinoma.yml", &format!("name: b\nimports:\n  common: common\ntargets:\n  pack:\n    dependencies: [\"common::gen\"]\n    build: '{}'\n", q("b-pack")));
        p.write_yml("a/common/zinoma.yml", &format!("name: common\ntargets:\n  gen:\n    build: '{}'\n", q("a-common-gen")));
        p.write_yml("b/common/zinoma.yml", &format!("name: common\ntargets:\n  gen:\n    build: '{}'\n", q("b-common-gen")));
        for args in [vec!["all"], vec!["common::gen"], vec!["--clean"]] {
            let (code, err, to) = run_to_end(&p, &args);
            let tr = p.trace_lines();
            let bad = if to {
                Some("hangs".to_string())
            } else if err.contains("panicked") {
                Some("crashes zinoma".to_string())
            } else if code == Some(0) || !tr.is_empty() {
                Some(format!("is accepted (exit {:?}, scripts {:?}): `common::gen` denotes two targets", code, tr))
            } else {
                None
            };
            if let Some(b) = bad {
                p.cleanup();
                return Some(("two loaded projects with one name are not refused".to_string(), format!("{}; zinoma {:?} {}", label, args, b)));
            }
        }
        p.cleanup();
    }
    None
}

pub fn bind_c19(rep: &mut Report) {
    let sc: Vec<Scenario> = vec![("named root importing a project with the same target names", c19_spellings), ("two loaded projects with one name, reached through different importers", c19_same_name_twice)];
    run_scenarios(rep, "C19", sc);
}

/// watch mode with the real watcher and the real binary: clean tree, change while idle, change during the build,
/// no rebuild loop from zinoma's own state writes
fn c06_watch_real() -> Option<(String, String)> {
    let p = Proj::new("c06");
    write(&p.root.join("src/in.txt"), b"v1");
    // the producer takes a moment so that an edit can land while it runs
    let prod = format!("cat src/in.txt > /dev/null; V=$(cat src/in.txt); sleep 0.4; mkdir -p gen; echo \"$V\" > gen/o.txt; echo \"end p $V\" >> {}", p.trace.display());
    let cons = format!("V=$(cat gen/o.txt); echo \"$V\" > final.txt; echo \"end c $V\" >> {}", p.trace.display());
    p.write_yml("zinoma.yml", &format!("targets:\n  p:\n    build: '{}'\n    input: [{{paths: [src]}}]\n    output: [{{paths: [gen]}}]\n  c:\n    build: '{}'\n    input: [p.output]\n    output: [{{paths: [final.txt]}}]\n", p.script("p", &prod), p.script("c", &cons)));
    let mut c = p.spawn(&["--watch", "c"]);
    let fail = |c: Child, p: &Proj, fp: &str, d: String| -> Option<(String, String)> {
        let e = wait_end_kill(c);
        let r = Some((fp.to_string(), format!("{} ; trace {:?} ; stderr tail: {}", d, p.trace_lines(), e)));
        p.cleanup();
        r
    };
    // clean tree: gen/ does not exist when watching begins
    if !p.wait_line("end c v1", 30) {
        return fail(c, &p, "watch mode did not bring a clean tree up to date", String::new());
    }
    if !alive(&mut c) {
        return fail(c, &p, "watch run ended by itself", String::new());
    }
    // change while idle
    std::thread::sleep(Duration::from_millis(300));
    write(&p.root.join("src/in.txt"), b"v2");
    if !p.wait_line("end c v2", 30) {
        return fail(c, &p, "change made while idle never reached the consumer", String::new());
    }
    // change while the producer is building v3: the last change (v4) must end up built
    write(&p.root.join("src/in.txt"), b"v3");
    if !p.wait_line("start p", 10) {
        return fail(c, &p, "set-up", "producer did not restart".into());
    }
    let starts = p.trace_lines().iter().filter(|l| *l == "start p").count();
    let t0 = Instant::now();
    while p.trace_lines().iter().filter(|l| *l == "start p").count() < starts.max(3) && t0.elapsed() < Duration::from_secs(10) {
        std::thread::sleep(Duration::from_millis(5));
    }
    std::thread::sleep(Duration::from_millis(100));
    write(&p.root.join("src/in.txt"), b"v4");
    if !p.wait_line("end c v4", 40) {
        return fail(c, &p, "the last change (made while the producer was building) never ended up built", String::new());
    }
    // quiescence: zinoma's own state writes must not retrigger anything
    let n = p.trace_lines().len();
    std::thread::sleep(Duration::from_millis(1500));
    let n2 = p.trace_lines().len();
    if n2 != n {
        return fail(c, &p, "rebuild loop", format!("{} more trace lines appeared without any edit", n2 - n));
    }
    let fin = std::fs::read_to_string(p.root.join("final.txt")).unwrap_or_default();
    signal(&c, libc::SIGINT);
    let e = wait_end(c, 15);
    let left = p.leftovers();
    let r = if fin.trim() != "v4" {
        Some(("final output is stale".to_string(), format!("final.txt = {:?}", fin)))
    } else if e.timed_out {
        Some(("SIGINT not honoured".to_string(), String::new()))
    } else if !left.is_empty() {
        Some(("process left behind".to_string(), format!("{:?}", left)))
    } else {
        None
    };
    p.cleanup();
    r
}

fn wait_end_kill(mut c: Child) -> String {
    let _ = c.kill();
    let e = wait_end(c, 5);
    e.stderr.lines().rev().take(4).collect::<Vec<_>>().join(" | ")
}

/// every declared input of a target is watched: several resources with the same extension filter, several paths in
/// one resource, a resource with a filter of its own, and the producer's outputs on top; a service likewise
fn c06_every_resource_watched() -> Option<(String, String)> {
    let p = Proj::new("c06r");
    for f in ["src/a.txt", "conf/b.txt", "extra/c.txt", "more/d.txt", "css/e.css", "svc1/x.txt", "svc2/y.txt", "pin/in.txt"] {
        write(&p.root.join(f), b"v0");
    }
    let prod = format!("mkdir -p gen; cat pin/in.txt > gen/o.txt; echo end p >> {}", p.trace.display());
    p.write_yml(
        "zinoma.yml",
        &format!(
            "targets:\n  p:\n    build: '{}'\n    input: [{{paths: [pin]}}]\n    output: [{{paths: [gen]}}]\n  t:\n    build: '{}'\n    input: [{{paths: [src]}}, {{paths: [conf, extra]}}, {{paths: [more]}}, {{paths: [css], extensions: [css]}}, p.output]\n  s:\n    service: '{}'\n    input: [{{paths: [svc1]}}, {{paths: [svc2]}}]\n  all:\n    dependencies: [t, s]\n",
            p.script("p", &prod),
            p.quick("t"),
            p.forever("s")
        ),
    );
    let mut c = p.spawn(&["--watch", "all"]);
    let fail = |c: Child, p: &Proj, fp: String, d: String| -> Option<(String, String)> {
        let e = wait_end_kill(c);
        let r = Some((fp, format!("{} ; trace {:?} ; stderr tail: {}", d, p.trace_lines(), e)));
        p.cleanup();
        r
    };
    if !p.wait_line("end t", 30) || !p.wait_line("start s", 30) {
        return fail(c, &p, "watch mode did not bring the tree up to date".into(), String::new());
    }
    std::thread::sleep(Duration::from_millis(700));
    let count = |p: &Proj, l: &str| p.trace_lines().iter().filter(|x| *x == l).count();
    for (k, (file, line)) in [("src/a.txt", "end t"), ("conf/b.txt", "end t"), ("extra/c.txt", "end t"), ("more/d.txt", "end t"), ("css/e.css", "end t"), ("pin/in.txt", "end t"), ("svc1/x.txt", "start s"), ("svc2/y.txt", "start s")].iter().enumerate() {
        if !alive(&mut c) {
            return fail(c, &p, "watch run ended by itself".into(), String::new());
        }
        let before = count(&p, line);
        write(&p.root.join(file), format!("v{}", k + 1).as_bytes());
        let t0 = Instant::now();
        while count(&p, line) == before && t0.elapsed() < Duration::from_secs(12) {
            std::thread::sleep(Duration::from_millis(20));
        }
        if count(&p, line) == before {
            return fail(c, &p, format!("a change to a declared input was never acted upon: {}", file.split('/').next().unwrap_or("")), format!("edited {} and waited 12 s for another `{}`", file, line));
        }
        std::thread::sleep(Duration::from_millis(400));
    }
    // a detected change is not absorbed by a skip: different content arriving with an older modification time
    // (an older copy moved into place)
    {
        if !alive(&mut c) {
            return fail(c, &p, "watch run ended by itself".into(), String::new());
        }
        let before = count(&p, "end t");
        let tmp = p.base.join("older-copy.txt");
        write(&tmp, b"content of an older copy, different from what was built");
        crate::sequtil::set_mtime(&tmp, 978_307_200); // 2001-01-01
        std::fs::rename(&tmp, p.root.join("src/a.txt")).unwrap();
        let t0 = Instant::now();
        while count(&p, "end t") == before && t0.elapsed() < Duration::from_secs(12) {
            std::thread::sleep(Duration::from_millis(20));
        }
        if count(&p, "end t") == before {
            return fail(c, &p, "a change that carries an older modification time was absorbed".into(), "moved a different, older-dated file over src/a.txt and waited 12 s for another `end t`".into());
        }
    }
    signal(&c, libc::SIGINT);
    let e = wait_end(c, 15);
    let left = p.leftovers();
    let r = if e.timed_out {
        Some(("SIGINT not honoured".to_string(), String::new()))
    } else if !left.is_empty() {
        Some(("process left behind".to_string(), format!("{:?}", left)))
    } else {
        None
    };
    p.cleanup();
    r
}

/// affected services are restarted, also through another service: frontend -> backend -> gen (a build)
fn c06_service_chain() -> Option<(String, String)> {
    let p = Proj::new("c06s");
    write(&p.root.join("src.txt"), b"v1");
    let tr = p.trace.display().to_string();
    p.write_yml(
        "zinoma.yml",
        &format!(
            "targets:\n  gen:\n    input: [{{paths: [src.txt]}}]\n    build: '{}'\n  backend:\n    dependencies: [gen]\n    service: '{}'\n  frontend:\n    dependencies: [backend]\n    service: '{}'\n",
            p.script("gen", &format!("echo \"end gen $(cat src.txt)\" >> {}", tr)),
            p.forever("backend"),
            p.forever("frontend")
        ),
    );
    let mut c = p.spawn(&["--watch", "frontend"]);
    let fail = |c: Child, p: &Proj, fp: String, d: String| -> Option<(String, String)> {
        let e = wait_end_kill(c);
        let r = Some((fp, format!("{} ; trace {:?} ; stderr tail: {}", d, p.trace_lines(), e)));
        p.cleanup();
        r
    };
    if !p.wait_line("start frontend", 30) {
        return fail(c, &p, "watch mode did not bring the tree up to date".into(), String::new());
    }
    let count = |p: &Proj, l: &str| p.trace_lines().iter().filter(|x| *x == l).count();
    for v in ["v2", "v3"] {
        std::thread::sleep(Duration::from_millis(500));
        if !alive(&mut c) {
            return fail(c, &p, "watch run ended by itself".into(), String::new());
        }
        let (b0, f0) = (count(&p, "start backend"), count(&p, "start frontend"));
        write(&p.root.join("src.txt"), v.as_bytes());
        if !p.wait_line(&format!("end gen {}", v), 30) {
            return fail(c, &p, "a change was never rebuilt".into(), format!("src.txt = {}", v));
        }
        let t0 = Instant::now();
        while (count(&p, "start backend") == b0 || count(&p, "start frontend") == f0) && t0.elapsed() < Duration::from_secs(15) {
            std::thread::sleep(Duration::from_millis(20));
        }
        if count(&p, "start backend") == b0 {
            return fail(c, &p, "an affected service was not restarted: directly above the rebuilt target".into(), format!("src.txt = {}", v));
        }
        if count(&p, "start frontend") == f0 {
            return fail(c, &p, "an affected service was not restarted: above another restarted service".into(), format!("src.txt = {}", v));
        }
    }
    signal(&c, libc::SIGINT);
    let e = wait_end(c, 15);
    let left = p.leftovers();
    let r = if e.timed_out {
        Some(("SIGINT not honoured".to_string(), String::new()))
    } else if !left.is_empty() {
        Some(("process left behind".to_string(), format!("{:?}", left)))
    } else {
        None
    };
    p.cleanup();
    r
}

pub fn bind_c06(rep: &mut Report) {
    let sc: Vec<Scenario> = vec![("producer->consumer, real watcher: clean tree, edit while idle, edit during a build, no rebuild loop", c06_watch_real), ("real watcher: a change under each of several declared resources (same filter, several paths, own filter, inherited outputs; build and service)", c06_every_resource_watched), ("real watcher: a rebuilt target restarts the service above it and the service above that one", c06_service_chain)];
    run_scenarios(rep, "C06", sc);
}


// ---------------------------------------------------------------------------------------
// C17: independent targets overlap (rendezvous scripts: each waits for the others' start lines)

fn c17_rendezvous(names: &'static [&'static str], yml: fn(&Proj) -> String, args: &'static [&'static str]) -> Option<(String, String)> {
    let p = Proj::new("c17");
    p.write_yml("zinoma.yml", &yml(&p));
    let c = p.spawn(args);
    let e = wait_end(c, 40);
    let tr = p.trace_lines();
    let r = if e.timed_out || e.code != Some(0) {
        Some(("independent targets did not all run at the same time".to_string(), format!("zinoma {:?} exit {:?} timed_out {}; trace {:?}; stderr {}", args, e.code, e.timed_out, tr, e.stderr.lines().rev().take(3).collect::<Vec<_>>().join(" | "))))
    } else if !names.iter().all(|n| tr.iter().any(|l| l == &format!("overlap {}", n))) {
        Some(("rendezvous incomplete".to_string(), format!("trace {:?}", tr)))
    } else {
        None
    };
    p.cleanup();
    r
}

/// script of `name`: log the start, wait (bounded) until every other target of `all` logged its start too
fn rendezvous(p: &Proj, name: &str, all: &[&str]) -> String {
    let mut waits = String::new();
    for o in all.iter().filter(|o| **o != name) {
        waits += &format!("i=0; while ! grep -q \"^start {o}$\" {t} 2>/dev/null; do i=$((i+1)); [ $i -gt 1500 ] && exit 9; sleep 0.01; done; ", o = o, t = p.trace.display());
    }
    p.script(name, &format!("{}echo overlap {} >> {}", waits, name, p.trace.display()))
}

fn yml_three_independent(p: &Proj) -> String {
    let all = ["x", "y", "z"];
    format!("targets:\n  x:\n    build: '{}'\n  y:\n    build: '{}'\n  z:\n    build: '{}'\n  all:\n    dependencies: [x, y, z]\n", rendezvous(p, "x", &all), rendezvous(p, "y", &all), rendezvous(p, "z", &all))
}
fn yml_build_beside_service_dep(p: &Proj) -> String {
    // top depends on a slow-ish build and on a service: the service must come up while the build runs
    let all = ["lib", "db"];
    format!("targets:\n  lib:\n    build: '{}'\n  db:\n    service: '{}; exec sleep 1000'\n  top:\n    dependencies: [lib, db]\n    build: '{}'\n", rendezvous(p, "lib", &all), rendezvous(p, "db", &all), p.quick("top"))
}

/// targets that are busy computing the state of a slow `cmd_stdout` input hold nothing another target needs:
/// with a runtime of two worker threads, two such targets are held until an independent chain gate -> probe has
/// run (the probe's script is what releases the commands; a command gives up after 20 s)
fn c17_slow_state_commands() -> Option<(String, String)> {
    let p = Proj::new("c17c");
    let tr = p.trace.display().to_string();
    write(
        &p.root.join("hold.sh"),
        format!("echo \"cmd $1\" >> {tr}\ni=0\nwhile [ ! -e release ] && [ $i -lt 200 ]; do sleep 0.1; i=$((i+1)); done\nif [ -e release ]; then echo \"released $1\" >> {tr}; else echo \"gave-up $1\" >> {tr}; fi\necho value-$1\n", tr = tr).as_bytes(),
    );
    p.write_yml(
        "zinoma.yml",
        &format!(
            "targets:\n  a:\n    input: [{{cmd_stdout: \"sh hold.sh a\"}}]\n    build: '{}'\n  b:\n    input: [{{cmd_stdout: \"sh hold.sh b\"}}]\n    build: '{}'\n  gate:\n    build: '{}'\n  probe:\n    dependencies: [gate]\n    build: '{}'\n  all:\n    dependencies: [a, b, probe]\n",
            p.quick("a"),
            p.quick("b"),
            p.script("gate", &format!("while ! grep -q \"cmd a\" {tr} || ! grep -q \"cmd b\" {tr}; do sleep 0.05; done; echo end gate >> {tr}", tr = tr)),
            p.script("probe", &format!("touch release; echo end probe >> {tr}", tr = tr)),
        ),
    );
    let c = p.spawn_env(&["all"], &[("ASYNC_STD_THREAD_COUNT", "2")]);
    let e = wait_end(c, 90);
    let tr = p.trace_lines();
    let left = p.leftovers();
    p.cleanup();
    if e.timed_out {
        return Some(("run does not end".to_string(), format!("trace {:?}", tr)));
    }
    if tr.iter().any(|l| l.starts_with("gave-up")) {
        return Some(("independent targets made no progress while two others computed the state of their inputs".to_string(), format!("two worker threads, targets a and b each inside a slow cmd_stdout input, gate -> probe independent of both: the commands were never released by the probe; trace {:?}", tr)));
    }
    if e.code != Some(0) || !tr.iter().any(|l| l == "end a") || !tr.iter().any(|l| l == "end b") {
        return Some(("set-up: run failed".to_string(), format!("exit {:?} trace {:?} stderr {}", e.code, tr, e.stderr.lines().rev().take(3).collect::<Vec<_>>().join(" | "))));
    }
    if !left.is_empty() {
        return Some(("process left behind".to_string(), format!("{:?}", left)));
    }
    None
}

/// equal target names in two projects: `lib::pack` (which takes its own project's `gen.output`) does not wait for
/// the root project's unrelated, long-running `gen`; that one ends only once pack has started
fn c17_same_name_in_another_project_is_not_a_dependency() -> Option<(String, String)> {
    for args in [vec!["lib::pack", "gen"], vec!["gen", "lib::pack"]] {
        let p = Proj::new("c17n");
        let tr = p.trace.display().to_string();
        let hold = format!("i=0; while ! grep -q \"start pack\" {tr} && [ $i -lt 150 ]; do sleep 0.1; i=$((i+1)); done; if grep -q \"start pack\" {tr}; then echo \"root-gen saw-pack\" >> {tr}; else echo \"root-gen gave-up\" >> {tr}; fi", tr = tr);
        p.write_yml("zinoma.yml", &format!("imports:\n  lib: lib\ntargets:\n  gen:\n    build: '{}'\n    output: [{{paths: [root-gen.txt]}}]\n", p.script("root-gen", &hold)));
        p.write_yml(
            "lib/zinoma.yml",
            &format!("name: lib\ntargets:\n  gen:\n    build: '{}'\n    output: [{{paths: [lib-gen.txt]}}]\n  pack:\n    dependencies: [gen]\n    input: [gen.output]\n    build: '{}'\n", p.script("lib-gen", &format!("echo x > lib-gen.txt; echo end lib-gen >> {}", tr)), p.quick("pack")),
        );
        let c = p.spawn(&args);
        let e = wait_end(c, 60);
        let tr = p.trace_lines();
        let left = p.leftovers();
        p.cleanup();
        if e.timed_out {
            return Some(("run does not end".to_string(), format!("zinoma {:?}; trace {:?}", args, tr)));
        }
        if tr.iter().any(|l| l == "root-gen gave-up") {
            return Some(("a target waited for a same-named target of another project that is not its dependency".to_string(), format!("zinoma {:?}: lib::pack did not start while the root project's gen was in progress; trace {:?}", args, tr)));
        }
        if e.code != Some(0) || !tr.iter().any(|l| l == "end pack") || !tr.iter().any(|l| l == "end lib-gen") {
            return Some(("run failed or the real dependency did not run".to_string(), format!("zinoma {:?}: exit {:?}; trace {:?}; stderr {}", args, e.code, tr, e.stderr.lines().rev().take(3).collect::<Vec<_>>().join(" | "))));
        }
        if !left.is_empty() {
            return Some(("process left behind".to_string(), format!("{:?}", left)));
        }
    }
    None
}

pub fn bind_c17(rep: &mut Report) {
    let sc: Vec<Scenario> = vec![
        ("equal target names in two projects: no wait for the other project's target", c17_same_name_in_another_project_is_not_a_dependency),
        ("two targets inside slow cmd_stdout inputs on a two-thread runtime, an independent chain beside them", c17_slow_state_commands),
        ("three independent builds under an aggregate", || c17_rendezvous(&["x", "y", "z"], yml_three_independent, &["all"])),
        ("three independent builds requested one by one", || c17_rendezvous(&["x", "y", "z"], yml_three_independent, &["z", "x", "y"])),
        ("a build and a service that are both dependencies of one build", || c17_rendezvous(&["lib", "db"], yml_build_beside_service_dep, &["top"])),
    ];
    run_scenarios(rep, "C17", sc);
}
