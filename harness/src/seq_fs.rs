//! C15: a files resource denotes exactly the matching regular files under its paths.
use crate::report::Report;
use crate::sequtil::*;
use serde_json::json;
use std::collections::{BTreeSet, HashMap};
use std::os::unix::ffi::OsStrExt;
use std::path::{Path, PathBuf};
use zinoma::verif_api::{domain, ir, yaml};

/// Resolve one build target `t` with the given input declaration through the real resolver
/// (this is where extensions are normalised) and return its files resources.
pub fn resolve_files(project_dir: &Path, paths: &[String], extensions: &Option<Vec<String>>) -> Vec<domain::FilesResource> {
    let mut targets = HashMap::new();
    targets.insert(
        "t".to_string(),
        yaml::Target::Build {
            dependencies: yaml::Dependencies(vec![]),
            build: ":".into(),
            input: yaml::InputResources(vec![yaml::InputResource::Files { paths: paths.to_vec(), extensions: extensions.clone() }]),
            output: yaml::OutputResources(vec![]),
        },
    );
    let mut projects = HashMap::new();
    projects.insert(project_dir.to_path_buf(), yaml::Project { targets, name: None, imports: HashMap::new() });
    let cfg = yaml::Config { root_project_dir: project_dir.to_path_buf(), projects };
    let ir: ir::Config = cfg.into();
    let id = domain::TargetId { project_name: None, target_name: "t".into() };
    let mut m = ir.try_into_domain_targets(&[id.clone()]).expect("resolve");
    match m.remove(&id).unwrap() {
        domain::Target::Build(b) => b.input.files,
        _ => unreachable!(),
    }
}

pub fn norm_exts(raw: &Option<Vec<String>>) -> Option<Vec<Vec<u8>>> {
    match raw {
        None => None,
        Some(v) => {
            let n: Vec<Vec<u8>> = v.iter().filter(|e| !e.is_empty()).map(|e| if e.starts_with('.') { e.clone().into_bytes() } else { format!(".{}", e).into_bytes() }).collect();
            if n.is_empty() {
                None
            } else {
                Some(n)
            }
        }
    }
}

pub fn ext_match(name: &[u8], exts: &Option<Vec<Vec<u8>>>) -> bool {
    match exts {
        None => true,
        Some(es) => es.iter().any(|e| name.ends_with(e)),
    }
}

/// Independent walker. Returns (must-be-listed, don't-care).
pub fn ref_list(decl: &[PathBuf], exts: &Option<Vec<Vec<u8>>>) -> (BTreeSet<PathBuf>, BTreeSet<PathBuf>) {
    let mut must = BTreeSet::new();
    let mut dc = BTreeSet::new();
    fn walk(dir: &Path, exts: &Option<Vec<Vec<u8>>>, must: &mut BTreeSet<PathBuf>, dc: &mut BTreeSet<PathBuf>) {
        let rd = match std::fs::read_dir(dir) {
            Ok(r) => r,
            Err(_) => return,
        };
        for e in rd.flatten() {
            let p = e.path();
            let name = e.file_name();
            let md = match std::fs::symlink_metadata(&p) {
                Ok(m) => m,
                Err(_) => continue,
            };
            let ft = md.file_type();
            if name.as_bytes() == b".zinoma" {
                if !ft.is_dir() {
                    dc.insert(p); // reserved name used for a non-directory: statement silent
                }
                continue; // pruned
            }
            if ft.is_symlink() {
                // a symlink to a regular file denotes that file (the content behind it is part of the resource);
                // a symlink to a directory is not followed, a dangling one denotes nothing
                if std::fs::metadata(&p).map(|m| m.is_file()).unwrap_or(false) && ext_match(name.as_bytes(), exts) {
                    must.insert(p);
                }
            } else if ft.is_dir() {
                walk(&p, exts, must, dc);
            } else if ft.is_file() {
                if ext_match(name.as_bytes(), exts) {
                    must.insert(p);
                }
            }
        }
    }
    for p in decl {
        let md = match std::fs::symlink_metadata(p) {
            Ok(m) => m,
            Err(_) => continue, // missing paths contribute nothing
        };
        if md.file_type().is_dir() {
            if p.file_name().map(|n| n.as_bytes() == b".zinoma").unwrap_or(false) {
                continue;
            }
            walk(p, exts, &mut must, &mut dc);
        } else if md.file_type().is_file() {
            if ext_match(&name_bytes(p), exts) {
                must.insert(p.clone());
            }
        }
    }
    (must, dc)
}

#[derive(Clone, Debug)]
pub enum Entry {
    F(&'static [u8]),
    D(&'static [u8]),
    LinkTo(&'static [u8], &'static [u8]),
    Fifo(&'static [u8]),
}

pub const CORE: [Entry; 10] = [
    Entry::F(b"a.txt"),
    Entry::F(b"b.csv"),
    Entry::F(b".hidden"),
    Entry::F(b".csv"),
    Entry::F(b"csv"),
    Entry::F(b"x.tar.gz"),
    Entry::F(b"d/b.csv"),
    Entry::F(b"d/e/f.csv"),
    Entry::F(b".zinoma/s.csv"),
    Entry::F(b"d/.zinoma/n/t.csv"),
];

pub fn extras() -> Vec<Entry> {
    vec![
        Entry::F(b"y.gz"),
        Entry::F(b"sp ace.txt"),
        Entry::F("ünï.csv".as_bytes()),
        Entry::F(b"bad\xFF.csv"),
        Entry::F(b"d/.zinoma/s.csv"),
        Entry::LinkTo(b"l", b"d"),
        Entry::LinkTo(b"loop", b"."),
        Entry::LinkTo(b"fl.csv", b"b.csv"),
        Entry::LinkTo(b"dang.csv", b"nowhere"),
        Entry::D(b"emp"),
        Entry::Fifo(b"p.csv"),
        Entry::F(b"d2/.zinoma"),
        Entry::F(b".zinoma.bak/s.csv"),
        Entry::F(b"x.zinoma/s.csv"),
        Entry::F(b"d/e/.zinoma/deep/u.csv"),
        Entry::F(b"d/a.csv.bak"),
        Entry::D(b"dir.csv"),
    ]
}

pub fn entry_str(e: &Entry) -> String {
    let l = |b: &[u8]| String::from_utf8_lossy(b).to_string();
    match e {
        Entry::F(p) => format!("file {}", l(p)),
        Entry::D(p) => format!("dir {}/", l(p)),
        Entry::LinkTo(p, t) => format!("symlink {} -> {}", l(p), l(t)),
        Entry::Fifo(p) => format!("fifo {}", l(p)),
    }
}

pub fn make_entry(root: &Path, e: &Entry) {
    match e {
        Entry::F(rel) => write(&root.join(osstr(rel)), rel),
        Entry::D(rel) => std::fs::create_dir_all(root.join(osstr(rel))).unwrap(),
        Entry::LinkTo(rel, to) => {
            let p = root.join(osstr(rel));
            if let Some(d) = p.parent() {
                std::fs::create_dir_all(d).unwrap();
            }
            std::os::unix::fs::symlink(osstr(to), &p).unwrap();
        }
        Entry::Fifo(rel) => mkfifo(&root.join(osstr(rel))),
    }
}

pub fn decl_paths() -> Vec<Vec<&'static str>> {
    vec![vec![""], vec!["d"], vec!["b.csv"], vec!["missing"], vec!["d", "d/e"], vec!["", ""], vec!["."], vec!["d/e/../../d"], vec!["missing/deeper", "a.txt"]]
}
pub fn decl_exts() -> Vec<Option<Vec<&'static str>>> {
    vec![None, Some(vec![]), Some(vec![""]), Some(vec!["csv"]), Some(vec![".csv"]), Some(vec!["tar.gz"]), Some(vec!["gz", "txt"]), Some(vec!["."]), Some(vec!["csv", ""]), Some(vec!["v"])]
}

pub fn check_c15(rep: &mut Report) {
    let extras = extras();
    // tree index: 0..2^k subsets of the core, then full core + one extra each
    let core_n = 10;
    let n_subsets = 1usize << core_n;
    let npairs = if rep.thorough() { extras.len() * (extras.len() - 1) / 2 } else { 0 };
    let total_trees = n_subsets + extras.len() + npairs;
    let trees: Vec<usize> = (0..total_trees).collect();
    let threads = 16;
    struct Out {
        listings: u64,
        must_total: u64,
        dc_total: u64,
        violations: Vec<(String, String, serde_json::Value)>,
        distinct: BTreeSet<String>,
        sample: Option<serde_json::Value>,
    }
    let outs: Vec<Out> = crate::explore::par_map(&trees, threads, |&ti| {
        let root = scratch(&format!("c15-{}", ti));
        let mut present: Vec<Entry> = vec![];
        if ti < n_subsets {
            // the two last core entries are always present in quick mode (they carry the .zinoma pruning)
            for (i, e) in CORE.iter().enumerate() {
                let on = if i < core_n { ti & (1 << i) != 0 } else { true };
                if on {
                    present.push(e.clone());
                }
            }
        } else if ti < n_subsets + extras.len() {
            present.extend(CORE.iter().cloned());
            present.push(extras[ti - n_subsets].clone());
        } else {
            // thorough: every pair of extra entries on top of the full core
            present.extend(CORE.iter().cloned());
            let mut k = ti - n_subsets - extras.len();
            'outer: for i in 0..extras.len() {
                for j in (i + 1)..extras.len() {
                    if k == 0 {
                        present.push(extras[i].clone());
                        present.push(extras[j].clone());
                        break 'outer;
                    }
                    k -= 1;
                }
            }
        }
        for e in &present {
            make_entry(&root, e);
        }
        let mut o = Out { listings: 0, must_total: 0, dc_total: 0, violations: vec![], distinct: BTreeSet::new(), sample: None };
        let mut paths_decls = decl_paths();
        if ti >= n_subsets {
            paths_decls.push(vec!["l"]);
        }
        for dp in &paths_decls {
            for de in decl_exts() {
                let paths: Vec<String> = dp.iter().map(|s| s.to_string()).collect();
                let exts: Option<Vec<String>> = de.as_ref().map(|v| v.iter().map(|s| s.to_string()).collect());
                let res = std::panic::catch_unwind(|| {
                    let files = resolve_files(&root, &paths, &exts);
                    let fr = &files[0];
                    let got = async_std::task::block_on(zinoma::verif_api::fs::list_files_in_paths(&fr.paths, &fr.extensions));
                    let got: BTreeSet<PathBuf> = got.into_iter().map(|p| PathBuf::from(p.as_os_str().to_os_string())).collect();
                    let decl: Vec<PathBuf> = fr.paths.iter().map(|p| PathBuf::from(p.as_os_str().to_os_string())).collect();
                    (got, decl, fr.extensions.clone())
                });
                o.listings += 1;
                let (got, decl, real_exts) = match res {
                    Ok(x) => x,
                    Err(_) => {
                        o.violations.push(("lister-panicked".into(), format!("listing panicked for paths {:?} extensions {:?}", paths, exts), json!({"engine": "seqcheck", "check": "C15", "tree": present.iter().map(|e| entry_str(e)).collect::<Vec<_>>(), "paths": paths, "extensions": exts})));
                        continue;
                    }
                };
                // a declared path that is itself a symlink: statement silent
                let decl_is_symlink = decl.iter().any(|p| std::fs::symlink_metadata(p).map(|m| m.file_type().is_symlink()).unwrap_or(false));
                let nexts = norm_exts(&exts);
                let real_norm: Option<Vec<Vec<u8>>> = real_exts.as_ref().map(|s| s.iter().map(|e| e.clone().into_bytes()).collect());
                let mut a = nexts.clone();
                let mut b = real_norm.clone();
                if let Some(x) = a.as_mut() {
                    x.sort();
                    x.dedup();
                }
                if let Some(x) = b.as_mut() {
                    x.sort();
                }
                if a != b {
                    o.violations.push((format!("extensions-normalised-differently:{:?}", exts), format!("declared extensions {:?} were resolved to {:?}, expected {:?}", exts, real_exts, nexts.as_ref().map(|v| v.iter().map(|e| String::from_utf8_lossy(e).to_string()).collect::<Vec<_>>())), json!({"engine": "seqcheck", "check": "C15", "extensions": exts})));
                }
                if decl_is_symlink {
                    continue;
                }
                let (must, dc) = ref_list(&decl, &nexts);
                o.must_total += must.len() as u64;
                o.dc_total += dc.len() as u64;
                let norm = |s: &BTreeSet<PathBuf>| -> BTreeSet<PathBuf> { s.iter().map(|p| p.components().collect::<PathBuf>()).collect() };
                let dcn = norm(&dc);
                let g: BTreeSet<PathBuf> = norm(&got).difference(&dcn).cloned().collect();
                let m: BTreeSet<PathBuf> = norm(&must).difference(&dcn).cloned().collect();
                o.distinct.insert(format!("{:?}|{:?}|{:?}", m.iter().map(|p| p.strip_prefix(&root).unwrap_or(p).to_path_buf()).collect::<Vec<_>>(), dp, de));
                if o.sample.is_none() && m.len() >= 3 && nexts.is_some() {
                    o.sample = Some(json!({"tree": present.iter().map(|e| entry_str(e)).collect::<Vec<_>>(), "paths": paths, "extensions": exts, "denoted": m.iter().map(|p| lossy(p.strip_prefix(&root).unwrap_or(p))).collect::<Vec<_>>()}));
                }
                if g != m {
                    let extra: Vec<String> = g.difference(&m).map(|p| lossy(p.strip_prefix(&root).unwrap_or(p))).collect();
                    let missing: Vec<String> = m.difference(&g).map(|p| lossy(p.strip_prefix(&root).unwrap_or(p))).collect();
                    let class = |v: &Vec<String>| -> Vec<String> {
                        let mut c: Vec<String> = v.iter().map(|s| if s.contains(".zinoma/") || s.starts_with(".zinoma") { "inside .zinoma".to_string() } else { format!("name {:?}", Path::new(s).file_name().map(|n| n.to_string_lossy().to_string()).unwrap_or_default()) }).collect();
                        c.sort();
                        c.dedup();
                        c.truncate(3);
                        c
                    };
                    o.violations.push((
                        format!("listing-differs: extensions={:?} extra={:?} missing={:?}", exts, class(&extra), class(&missing)),
                        format!("paths {:?} extensions {:?}\n  listed but not denoted: {:?}\n  denoted but not listed: {:?}", paths, exts, extra, missing),
                        json!({"engine": "seqcheck", "check": "C15", "tree": present.iter().map(|e| entry_str(e)).collect::<Vec<_>>(), "paths": paths, "extensions": exts}),
                    ));
                }
            }
        }
        let _ = std::fs::remove_dir_all(&root);
        o
    });
    let mut distinct = BTreeSet::new();
    let mut listings = 0;
    let mut must_total = 0;
    let mut dc_total = 0;
    for o in outs {
        listings += o.listings;
        must_total += o.must_total;
        dc_total += o.dc_total;
        distinct.extend(o.distinct);
        for (fp, d, r) in o.violations {
            rep.violation(fp, d, r);
        }
        if let Some(s) = o.sample {
            rep.push_sample(s);
        }
    }
    rep.set("states", json!(distinct.len()));
    rep.set("transitions", json!(listings));
    rep.set("traces_validated_against_impl", json!(listings));
    rep.set("trees", json!(total_trees));
    rep.set("declarations_per_tree", json!(decl_paths().len() * decl_exts().len()));
    rep.set("files_denoted_total", json!(must_total));
    rep.set("dont_care_entries_total", json!(dc_total));
    rep.set("exhaustive", json!(true));
    rep.set("bounds", json!({"core_entries": core_n, "core": CORE.iter().map(|e| entry_str(e)).collect::<Vec<_>>(), "extras_one_at_a_time": extras.iter().map(|e| entry_str(e)).collect::<Vec<_>>(), "paths": decl_paths(), "extensions": decl_exts()}));
    rep.set("rule", json!("states = distinct (denoted set, declaration) pairs; transitions = listings compared with the reference walker"));
    rep.assumptions.push("symlinks to regular files are denoted (as on the pinned tree), directory symlinks are not followed; don't-care: non-directories named .zinoma, declared paths that are themselves symlinks".into());
}
