//! C16 (and the start-up half of C06): a real TargetWatcher (inotify) over a scratch directory,
//! ordered by a sentinel event instead of by time.
use crate::report::Report;
use crate::sequtil::*;
use serde_json::json;
use std::collections::{BTreeMap, BTreeSet};
use std::path::{Path, PathBuf};
use std::sync::Mutex;
use zinoma::verif_api::domain::{FilesResource, Resources, TargetId};
use zinoma::verif_api::engine::{TargetInvalidatedMessage, TargetWatcher};

static LOG: Mutex<Vec<String>> = Mutex::new(Vec::new());
static PANICS: Mutex<Vec<String>> = Mutex::new(Vec::new());

struct Capture;
impl log::Log for Capture {
    fn enabled(&self, _: &log::Metadata) -> bool {
        true
    }
    fn log(&self, r: &log::Record) {
        if r.target().contains("watcher") {
            LOG.lock().unwrap().push(format!("{}", r.args()));
        }
    }
    fn flush(&self) {}
}
static CAPTURE: Capture = Capture;

pub fn install_capture() {
    let _ = log::set_logger(&CAPTURE);
    log::set_max_level(log::LevelFilter::Trace);
    std::panic::set_hook(Box::new(|info| {
        let t = std::thread::current();
        let msg = format!("thread {:?}: {}", t.name().unwrap_or("?"), format!("{}", info).replace('\n', " "));
        if t.name() == Some("main") && !msg.contains("notify-6") {
            eprintln!("{}", msg);
        }
        PANICS.lock().unwrap().push(msg);
    }));
}

#[derive(Clone, Debug, PartialEq, Eq, Hash, PartialOrd, Ord)]
pub enum WOp {
    Create(Vec<u8>),
    Modify(Vec<u8>),
    Delete(Vec<u8>),
    Chmod(Vec<u8>),
    Rename(Vec<u8>, Vec<u8>),
    Mkdir(Vec<u8>),
}

impl WOp {
    pub fn show(&self) -> String {
        let l = |b: &Vec<u8>| String::from_utf8_lossy(b).to_string();
        match self {
            WOp::Create(n) => format!("create {:?}", l(n)),
            WOp::Modify(n) => format!("modify {:?}", l(n)),
            WOp::Delete(n) => format!("delete {:?}", l(n)),
            WOp::Chmod(n) => format!("chmod {:?}", l(n)),
            WOp::Rename(a, b) => format!("rename {:?} -> {:?}", l(a), l(b)),
            WOp::Mkdir(n) => format!("mkdir {:?}", l(n)),
        }
    }
    fn names(&self) -> Vec<&Vec<u8>> {
        match self {
            WOp::Create(n) | WOp::Modify(n) | WOp::Delete(n) | WOp::Chmod(n) | WOp::Mkdir(n) => vec![n],
            WOp::Rename(a, b) => vec![a, b],
        }
    }
}

pub fn names() -> Vec<Vec<u8>> {
    let mut long = vec![b'n'; 251];
    long.extend_from_slice(b".csv");
    vec![
        b"a.csv".to_vec(),
        b"a.txt".to_vec(),
        b"a.csv~".to_vec(),
        b".a.csv.swp".to_vec(),
        b".a.csv.swx".to_vec(),
        b".swp".to_vec(),
        b"~".to_vec(),
        b".csv".to_vec(),
        b"x.tar.gz".to_vec(),
        b"bad\xFF.csv".to_vec(),
        b"\xFF".to_vec(),
        "ünï.csv".as_bytes().to_vec(),
        b".zinoma/t.checksums".to_vec(),
        b".zinoma/t.csv".to_vec(),
        b"d/.zinoma/t.csv".to_vec(),
        b"d/a.csv".to_vec(),
        b"top/a.csv".to_vec(),
        b"top/b.txt".to_vec(),
        b"d/new/a.csv".to_vec(),
        b"..csv".to_vec(),
        b"a.csv.swp".to_vec(),
        b"sp ace.csv".to_vec(),
        // editor temporaries whose names are not valid UTF-8
        b"caf\xE9.txt~".to_vec(),
        b".caf\xE9.csv.swp".to_vec(),
        // names that end in the letters of an extension without the dot
        b"acsv".to_vec(),
        b"csv".to_vec(),
        long,
    ]
}

/// extension groups: (label, resources as (sub-path, extensions))
pub fn groups() -> Vec<(&'static str, Vec<(&'static str, Option<Vec<&'static str>>)>)> {
    vec![
        ("no filter", vec![("", None)]),
        ("[csv]", vec![("", Some(vec![".csv"]))]),
        ("two resources: d/[csv] and top/[txt]", vec![("d", Some(vec![".csv"])), ("top", Some(vec![".txt"]))]),
        // two separate resources sharing the same filter (they end up in the same watcher)
        ("two resources, both unfiltered: d/ and top/", vec![("d", None), ("top", None)]),
        ("two resources, both [csv]: top/ and d/", vec![("top", Some(vec![".csv"])), ("d", Some(vec![".csv"]))]),
        // a declared path that does not exist when watching begins, next to one that does (same filter)
        ("two resources, both [csv]: d/ and a path that does not exist", vec![("d", Some(vec![".csv"])), ("nowhere", Some(vec![".csv"]))]),
    ]
}

fn is_tmp(name: &[u8]) -> bool {
    name.ends_with(b"~") || (name.starts_with(b".") && (name.ends_with(b".swp") || name.ends_with(b".swx")))
}

/// reference predicate: does an event on `rel` concern the target's declared inputs?
pub fn relevant(rel: &[u8], group: &[(&'static str, Option<Vec<&'static str>>)]) -> bool {
    let p = Path::new(osstr(rel));
    let fname = name_bytes(p);
    if is_tmp(&fname) {
        return false;
    }
    if p.components().any(|c| c.as_os_str() == ".zinoma") {
        return false;
    }
    group.iter().any(|(sub, exts)| {
        let under = sub.is_empty() || p.starts_with(sub);
        under && exts.as_ref().map(|es| es.iter().any(|e| fname.ends_with(e.as_bytes()))).unwrap_or(true)
    })
}

#[derive(Clone, Debug)]
pub struct WCase {
    pub group: usize,
    pub ops: Vec<WOp>,
}

pub fn cases(thorough: bool) -> Vec<WCase> {
    let ns = names();
    let mut out = vec![];
    let single = |n: &Vec<u8>| -> Vec<WOp> {
        let mut other = n.clone();
        other.extend_from_slice(b".renamed");
        let mut v = vec![WOp::Create(n.clone()), WOp::Modify(n.clone()), WOp::Delete(n.clone()), WOp::Chmod(n.clone()), WOp::Rename(n.clone(), other.clone()), WOp::Rename(other, n.clone())];
        // relevant <-> irrelevant renames within the same directory
        if n == b"a.csv" {
            v.push(WOp::Rename(b"a.csv".to_vec(), b"a.csv~".to_vec()));
            v.push(WOp::Rename(b"a.csv~".to_vec(), b"a.csv".to_vec()));
            v.push(WOp::Rename(b"a.txt".to_vec(), b".a.txt.swp".to_vec()));
            v.push(WOp::Rename(b"a.csv".to_vec(), b".zinoma/a.csv".to_vec()));
        }
        v
    };
    for g in 0..groups().len() {
        for n in &ns {
            for op in single(n) {
                out.push(WCase { group: g, ops: vec![op] });
            }
        }
        out.push(WCase { group: g, ops: vec![WOp::Mkdir(b"fresh".to_vec())] });
        out.push(WCase { group: g, ops: vec![WOp::Mkdir(b"fresh.csv".to_vec())] });
    }
    // sequences of two operations over a reduced name set
    let reduced: Vec<Vec<u8>> = if thorough { ns.clone() } else { vec![b"a.csv".to_vec(), b"a.txt".to_vec(), b"a.csv~".to_vec(), b".zinoma/t.csv".to_vec(), b"bad\xFF.csv".to_vec(), b"d/a.csv".to_vec(), b"top/a.csv".to_vec()] };
    let two = |n: &Vec<u8>| vec![WOp::Create(n.clone()), WOp::Modify(n.clone()), WOp::Delete(n.clone())];
    for g in 0..groups().len() {
        for n1 in &reduced {
            for o1 in two(n1) {
                for n2 in &reduced {
                    for o2 in two(n2) {
                        out.push(WCase { group: g, ops: vec![o1.clone(), o2.clone()] });
                    }
                }
            }
        }
    }
    out
}

/// the target's input as zinoma itself resolves it from a declaration: absolute paths, extensions written
/// without their leading dot (the normalisation is part of what decides which events are relevant)
fn make_input(root: &Path, group: &[(&'static str, Option<Vec<&'static str>>)]) -> Resources {
    let mut files = vec![];
    for (sub, exts) in group {
        let path = if sub.is_empty() { root.to_path_buf() } else { root.join(sub) };
        let raw: Option<Vec<String>> = exts.as_ref().map(|es| es.iter().map(|e| e.trim_start_matches('.').to_string()).collect());
        files.extend(crate::seq_fs::resolve_files(root, &[path.to_string_lossy().to_string()], &raw));
    }
    Resources { files, cmds: vec![] }
}

const SENTINELS: [&str; 3] = ["zzsentinel.csv", "d/zzsentinel.csv", "top/zzsentinel.txt"];

fn wait_for_sentinel(id: &str, seq: usize, root: &Path, group_idx: usize) -> Result<(), String> {
    // a fresh, uniquely named sentinel per synchronisation (a record of an earlier sentinel still in the
    // pipeline must not be mistaken for this one); one per watched path of the group
    let which: Vec<String> = match group_idx {
        2 => vec![format!("d/zzsentinel{}.csv", seq), format!("top/zzsentinel{}.txt", seq)],
        3 | 4 => vec![format!("d/zzsentinel{}.csv", seq), format!("top/zzsentinel{}.csv", seq)],
        5 => vec![format!("d/zzsentinel{}.csv", seq)],
        _ => vec![format!("zzsentinel{}.csv", seq)],
    };
    for s in &which {
        std::fs::write(root.join(s), format!("ping {}", seq)).map_err(|e| format!("sentinel write: {}", e))?;
    }
    let t0 = std::time::Instant::now();
    loop {
        {
            let log = LOG.lock().unwrap();
            let mine: Vec<&String> = log.iter().filter(|l| l.starts_with(&format!("{} - Invalidated by", id))).collect();
            if which.iter().all(|s| mine.iter().any(|l| l.contains(s.as_str()))) {
                return Ok(());
            }
        }
        if t0.elapsed() > std::time::Duration::from_secs(3) {
            return Err("sentinel not reported within 3 s".into());
        }
        std::thread::sleep(std::time::Duration::from_micros(300));
    }
}

fn apply(root: &Path, op: &WOp) -> std::io::Result<()> {
    let p = |n: &Vec<u8>| root.join(osstr(n));
    match op {
        WOp::Create(n) => {
            if let Some(d) = p(n).parent() {
                std::fs::create_dir_all(d)?;
            }
            std::fs::write(p(n), b"new")
        }
        WOp::Modify(n) => std::fs::write(p(n), b"modified content"),
        WOp::Delete(n) => std::fs::remove_file(p(n)),
        WOp::Chmod(n) => {
            use std::os::unix::fs::PermissionsExt;
            std::fs::set_permissions(p(n), std::fs::Permissions::from_mode(0o600))
        }
        WOp::Rename(a, b) => std::fs::rename(p(a), p(b)),
        WOp::Mkdir(n) => std::fs::create_dir_all(p(n)),
    }
}

/// evaluate one case; returns (verdict, detail)
pub fn eval_case(idx: usize, c: &WCase) -> (String, String) {
    let gs = groups();
    let (glabel, group) = &gs[c.group];
    let root = scratch(&format!("c16-{}", idx));
    // directories that exist when watching begins (incl. the work dirs and the parents of late directories)
    for d in ["d", "top", ".zinoma", "d/.zinoma"] {
        std::fs::create_dir_all(root.join(d)).unwrap();
    }
    for s in SENTINELS {
        std::fs::write(root.join(s), b"s").unwrap();
    }
    // files an operation needs to exist beforehand (except under directories created later)
    let mut late_dirs: BTreeSet<PathBuf> = BTreeSet::new();
    let mut created_by_earlier_op: BTreeSet<Vec<u8>> = BTreeSet::new();
    for op in &c.ops {
        let needs_existing: Vec<&Vec<u8>> = match op {
            WOp::Modify(n) | WOp::Delete(n) | WOp::Chmod(n) => vec![n],
            WOp::Rename(a, _) => vec![a],
            _ => vec![],
        };
        for n in needs_existing {
            if created_by_earlier_op.contains(n) {
                continue;
            }
            let p = root.join(osstr(n));
            if let Some(d) = p.parent() {
                std::fs::create_dir_all(d).unwrap();
            }
            if let Err(e) = std::fs::write(&p, b"pre-existing") {
                let _ = std::fs::remove_dir_all(&root);
                return ("SKIP".into(), format!("cannot create {:?}: {}", String::from_utf8_lossy(n), e));
            }
        }
        if let WOp::Create(n) = op {
            created_by_earlier_op.insert(n.clone());
            let p = root.join(osstr(n));
            if let Some(d) = p.parent() {
                if !d.exists() {
                    late_dirs.insert(d.to_path_buf());
                }
            }
        }
        if let WOp::Rename(_, b) = op {
            created_by_earlier_op.insert(b.clone());
        }
        if let WOp::Delete(n) = op {
            created_by_earlier_op.remove(n);
        }
    }
    let id = TargetId { project_name: None, target_name: format!("w{}", idx) };
    let ids = id.to_string();
    let input = make_input(&root, group);
    let (tx, rx) = async_std::channel::bounded::<TargetInvalidatedMessage>(1);
    let panics_before = PANICS.lock().unwrap().len();
    let mut attempt = 0;
    let watcher = loop {
        let r = std::panic::catch_unwind(|| TargetWatcher::new(&id, Some(&input), &tx));
        // the per-user limit of inotify instances is shared with the other workers: wait for them, this is not a verdict
        if let Ok(Err(e)) = &r {
            if format!("{:#}", e).contains("Too many open files") && attempt < 500 {
                attempt += 1;
                std::thread::sleep(std::time::Duration::from_millis(10));
                continue;
            }
        }
        break r;
    };
    let watcher = match watcher {
        Ok(Ok(w)) => w,
        Ok(Err(e)) => {
            let _ = std::fs::remove_dir_all(&root);
            return ("WATCHER-ERROR".into(), format!("creating the watcher failed: {:#}", e));
        }
        Err(_) => {
            let _ = std::fs::remove_dir_all(&root);
            return ("PANIC".into(), "creating the watcher panicked".into());
        }
    };
    // control: the sentinel alone is reported, and nothing else
    if let Err(e) = wait_for_sentinel(&ids, 0, &root, c.group) {
        let new_panics: Vec<String> = PANICS.lock().unwrap()[panics_before..].to_vec();
        let _ = std::panic::catch_unwind(std::panic::AssertUnwindSafe(move || drop(watcher)));
        let _ = std::fs::remove_dir_all(&root);
        if !new_panics.is_empty() {
            return ("KILLED".into(), format!("group {}: the watcher died right after its creation: {}", glabel, new_panics.join(" | ")));
        }
        // the sentinel is itself a file created under every declared path of the group: not reporting it is a miss
        return ("MISSED-SENTINEL".into(), format!("group {}: a file created under each declared input path was not reported for at least one of them ({})", glabel, e));
    }
    while rx.try_recv().is_ok() {}
    let mark = LOG.lock().unwrap().len();
    // directories created after watching began get their watch once the mkdir event was processed: sync on it
    for d in &late_dirs {
        std::fs::create_dir_all(d).unwrap();
    }
    if !late_dirs.is_empty() {
        if let Err(e) = wait_for_sentinel(&ids, 1, &root, c.group) {
            drop(watcher);
            let _ = std::fs::remove_dir_all(&root);
            return ("MACHINERY".into(), format!("sync after mkdir failed: {}", e));
        }
        // nothing relevant happened yet: forget these records
        while rx.try_recv().is_ok() {}
    }
    let mark = if late_dirs.is_empty() { mark } else { LOG.lock().unwrap().len() };
    let mut expect_trigger = false;
    for op in &c.ops {
        if let Err(e) = apply(&root, op) {
            drop(watcher);
            let _ = std::fs::remove_dir_all(&root);
            return ("SKIP".into(), format!("{} not applicable: {}", op.show(), e));
        }
        let directory_event = matches!(op, WOp::Mkdir(_));
        if !directory_event && op.names().iter().any(|n| relevant(n, group)) {
            expect_trigger = true;
        }
    }
    let only_irrelevant = c.ops.iter().all(|op| op.names().iter().all(|n| !relevant(n, group)));
    let survived = wait_for_sentinel(&ids, 2, &root, c.group);
    let records: Vec<String> = LOG.lock().unwrap()[mark..].iter().filter(|l| l.starts_with(&format!("{} - Invalidated by", ids))).cloned().collect();
    let triggers: Vec<&String> = records.iter().filter(|l| !l.contains("zzsentinel")).collect();
    let slot_filled = rx.try_recv().is_ok();
    let new_panics: Vec<String> = PANICS.lock().unwrap()[panics_before..].to_vec();
    // dropping a watcher whose thread died panics inside notify (send on a closed channel): contain it
    let _ = std::panic::catch_unwind(std::panic::AssertUnwindSafe(move || drop(watcher)));
    let new_panics: Vec<String> = new_panics.into_iter().filter(|p| !p.contains("thread \"main\"")).collect();
    let _ = std::fs::remove_dir_all(&root);
    let ops_desc: Vec<String> = c.ops.iter().map(|o| o.show()).collect();
    let desc = format!("group {} ; {}", glabel, ops_desc.join(" ; "));
    if let Err(e) = survived {
        if !new_panics.is_empty() {
            return ("KILLED".into(), format!("{}: the watcher stopped reporting changes; {}", desc, new_panics.join(" | ")));
        }
        return ("MACHINERY".into(), format!("{}: {} and no panic was captured", desc, e));
    }
    if !new_panics.is_empty() {
        return ("KILLED".into(), format!("{}: a watcher thread panicked: {}", desc, new_panics.join(" | ")));
    }
    let is_dir_only = c.ops.iter().all(|op| matches!(op, WOp::Mkdir(_)));
    if expect_trigger && triggers.is_empty() {
        return ("MISSED".into(), format!("{}: a declared input changed but the target was not triggered (records: {:?})", desc, records));
    }
    if only_irrelevant && !is_dir_only && !triggers.is_empty() {
        return ("SPURIOUS".into(), format!("{}: only files outside the declared inputs changed but the target was triggered: {:?}", desc, triggers));
    }
    if expect_trigger && !slot_filled {
        return ("MISSED".into(), format!("{}: trigger logged but the invalidation slot is empty", desc));
    }
    ("OK".into(), format!("{} -> {} trigger record(s)", desc, triggers.len()))
}

pub fn worker(thorough: bool, start: usize, end: usize) {
    install_capture();
    let cs = cases(thorough);
    let mut sentinel_failures: BTreeMap<usize, u32> = BTreeMap::new();
    for idx in start..end.min(cs.len()) {
        emit_case(idx);
        // a group whose declared paths are not even watched fails every case the same way: two witnesses are enough
        if sentinel_failures.get(&cs[idx].group).cloned().unwrap_or(0) >= 2 {
            emit_res(idx, "SKIP", "the control of this group already failed twice in this worker");
            continue;
        }
        let (v, d) = eval_case(idx, &cs[idx]);
        if v == "MISSED-SENTINEL" {
            *sentinel_failures.entry(cs[idx].group).or_insert(0) += 1;
        }
        emit_res(idx, &v, &d);
        if v == "KILLED" {
            // a dead watcher thread leaks its inotify instance: continue in a fresh process
            std::process::exit(0);
        }
        // keep the capture buffers small
        LOG.lock().unwrap().clear();
    }
    emit_done();
}

fn op_class(c: &WCase) -> String {
    c.ops.iter().map(|o| o.show().split(' ').next().unwrap_or("").to_string()).collect::<Vec<_>>().join("+")
}

pub fn check_c16(rep: &mut Report) {
    let thorough = rep.thorough();
    let cs = cases(thorough);
    let mut res = run_isolated("c16", &rep.tier.clone(), cs.len(), std::env::var("ZV_WORKERS").ok().and_then(|s| s.parse().ok()).unwrap_or(6), &[]);
    // real inotify under load: a verdict other than OK is reported only if the same case gives the same
    // verdict twice more, alone, in fresh processes; otherwise it is recorded as a flake of the machinery
    let mut flakes = vec![];
    let mut confirmed_per_class: BTreeMap<String, u32> = BTreeMap::new();
    for r in res.iter_mut() {
        if r.verdict != "OK" && r.verdict != "SKIP" && r.verdict != "RANGE-ABANDONED" {
            // confirm at most three cases per (verdict, group): the others of the class are not reported separately anyway
            let class = format!("{}|{}", r.verdict, cs[r.idx].group);
            let n = confirmed_per_class.entry(class).or_insert(0);
            *n += 1;
            if *n > 3 {
                r.verdict = "SKIP".into();
                continue;
            }
            let a = rerun_case("c16", &rep.tier, r.idx);
            let b = rerun_case("c16", &rep.tier, r.idx);
            if a.verdict != r.verdict || b.verdict != r.verdict {
                flakes.push(json!({"case": r.idx, "first": r.verdict, "detail": r.detail, "reruns": [a.verdict, b.verdict]}));
                *r = if a.verdict == b.verdict { a } else { CaseOut { idx: r.idx, verdict: "SKIP".into(), detail: "unstable under load".into() } };
            }
        }
    }
    rep.set("verdicts_not_reproduced_alone", json!(flakes));
    let mut seen = BTreeSet::new();
    let (mut ok, mut skipped, mut relevant_cases, mut irrelevant_cases) = (0u64, 0u64, 0u64, 0u64);
    let mut classes: BTreeMap<String, (String, serde_json::Value)> = BTreeMap::new();
    let gs = groups();
    for r in &res {
        if r.verdict == "RANGE-ABANDONED" {
            continue;
        }
        seen.insert(r.idx);
        let c = &cs[r.idx];
        let names_lossy: Vec<String> = c.ops.iter().flat_map(|o| o.names().into_iter().map(|n| String::from_utf8_lossy(n).to_string())).collect();
        let replay = json!({"engine": "seqcheck", "check": "C16", "group": gs[c.group].0, "ops": c.ops.iter().map(|o| o.show()).collect::<Vec<_>>()});
        let name_class = |c: &WCase| -> String {
            let all: Vec<&Vec<u8>> = c.ops.iter().flat_map(|o| o.names()).collect();
            let n = all.iter().find(|n| std::str::from_utf8(n).is_err()).or(all.last()).map(|n| (*n).clone()).unwrap_or_default();
            if std::str::from_utf8(&n).is_err() {
                "non-UTF-8 name".to_string()
            } else if n.len() > 200 {
                "255-byte name".to_string()
            } else {
                format!("{:?}", String::from_utf8_lossy(&n))
            }
        };
        match r.verdict.as_str() {
            "OK" => {
                ok += 1;
                if c.ops.iter().any(|op| op.names().iter().any(|n| relevant(n, &gs[c.group].1))) {
                    relevant_cases += 1
                } else {
                    irrelevant_cases += 1
                }
            }
            "SKIP" => skipped += 1,
            "KILLED" | "DIED" | "PANIC" => {
                classes.entry(format!("watcher-killed-by: {}", name_class(c))).or_insert((r.detail.clone(), replay));
            }
            "MISSED-SENTINEL" => {
                classes.entry(format!("declared-path-not-watched [{}]", gs[c.group].0)).or_insert((r.detail.clone(), replay));
            }
            "MISSED" => {
                classes.entry(format!("relevant-change-not-reported: {} {} [{}]", op_class(c), name_class(c), gs[c.group].0)).or_insert((r.detail.clone(), replay));
            }
            "SPURIOUS" => {
                classes.entry(format!("irrelevant-change-triggers: {} {} [{}]", op_class(c), name_class(c), gs[c.group].0)).or_insert((r.detail.clone(), replay));
            }
            "WATCHER-ERROR" => {
                classes.entry("watcher-cannot-be-created".to_string()).or_insert((r.detail.clone(), replay));
            }
            _ => rep.machinery_errors.push(format!("case {} ({:?}): {} {}", r.idx, names_lossy, r.verdict, r.detail)),
        }
    }
    if seen.len() != cs.len() && !res.iter().any(|r| r.verdict == "DIED") {
        rep.machinery_errors.push(format!("only {} of {} cases reported", seen.len(), cs.len()));
    }
    for (fp, (d, r)) in classes {
        rep.violation(fp, d, r);
    }
    rep.set("states", json!(ok));
    rep.set("transitions", json!(cs.len()));
    rep.set("traces_validated_against_impl", json!(cs.len() as u64 - skipped));
    rep.set("cases_with_a_relevant_change", json!(relevant_cases));
    rep.set("cases_confined_to_irrelevant_files", json!(irrelevant_cases));
    rep.set("cases_not_applicable", json!(skipped));
    rep.set("exhaustive", json!(true));
    if let Some(r) = res.iter().find(|r| r.verdict == "OK" && r.detail.contains("1 trigger")) {
        rep.push_sample(json!({"case": r.detail}));
    }
    if let Some(r) = res.iter().find(|r| r.verdict == "OK" && r.detail.contains("-> 0 trigger")) {
        rep.push_sample(json!({"case": r.detail}));
    }
    rep.set("bounds", json!({"names": names().iter().map(|n| String::from_utf8_lossy(n).chars().take(40).collect::<String>()).collect::<Vec<_>>(), "operations": "create, modify, delete, chmod, rename to/from <name>.renamed, relevant<->irrelevant renames, mkdir", "groups": groups().iter().map(|g| g.0).collect::<Vec<_>>(), "sequences": "every single operation x name x group; every pair over a reduced name set (all names thorough) x {create, modify, delete}"}));
    rep.set("rule", json!("states = applicable cases whose verdict agrees with the reference predicate; transitions = cases; ordering by a sentinel file on the same inotify instance(s), never by time"));
    rep.assumptions.push("one inotify queue and one notify thread per watcher: once the sentinel's record is seen every earlier event went through the filter".into());
}

// ---------------------------------------------------------------------------------------
// C06, start-up half: watching begins on a clean tree where declared paths do not exist yet

pub fn path_states() -> Vec<&'static str> {
    vec!["existing file", "existing directory", "empty directory", "missing", "missing below an existing directory", "missing below a missing directory", "dangling symlink"]
}

fn make_state(root: &Path, slot: usize, state: &str) -> PathBuf {
    let base = root.join(format!("s{}", slot));
    std::fs::create_dir_all(&base).unwrap();
    match state {
        "existing file" => {
            std::fs::write(base.join("f.txt"), b"x").unwrap();
            base.join("f.txt")
        }
        "existing directory" => {
            std::fs::create_dir_all(base.join("dir/sub")).unwrap();
            std::fs::write(base.join("dir/sub/f.txt"), b"x").unwrap();
            base.join("dir")
        }
        "empty directory" => {
            std::fs::create_dir_all(base.join("empty")).unwrap();
            base.join("empty")
        }
        "missing" => root.join(format!("nothing{}", slot)),
        "missing below an existing directory" => base.join("not-yet"),
        "missing below a missing directory" => base.join("no/such/dir"),
        _ => {
            std::os::unix::fs::symlink("nowhere", base.join("dangling")).unwrap();
            base.join("dangling")
        }
    }
}

/// every combination of path states for 1-2 resources, with and without extensions, must give a working watcher
pub fn watch_startup(rep: &mut Report) {
    install_capture();
    let states = path_states();
    let mut cases = 0u64;
    let mut idx = 0;
    for (i, s1) in states.iter().enumerate() {
        for s2 in std::iter::once(None).chain(states.iter().map(Some)) {
            for exts in [None, Some(vec![".txt".to_string()])] {
                idx += 1;
                let root = scratch(&format!("c06s-{}", idx));
                let mut files = vec![FilesResource { paths: vec![make_state(&root, 1, s1).into()], extensions: exts.clone().map(|e| e.into_iter().collect()) }];
                if let Some(s2) = s2 {
                    // second resource in another extension group, so that a second watcher is created
                    files.push(FilesResource { paths: vec![make_state(&root, 2, s2).into()], extensions: Some(vec![".o".to_string()].into_iter().collect()) });
                }
                let input = Resources { files, cmds: vec![] };
                let id = TargetId { project_name: None, target_name: format!("s{}", idx) };
                let (tx, _rx) = async_std::channel::bounded::<TargetInvalidatedMessage>(1);
                cases += 1;
                let r = std::panic::catch_unwind(|| TargetWatcher::new(&id, Some(&input), &tx).map(|w| w.is_some()));
                let desc = format!("resource 1: {}{}; resource 2: {:?}", s1, if exts.is_some() { " [txt]" } else { "" }, s2);
                match r {
                    Ok(Ok(true)) => {}
                    Ok(Ok(false)) => rep.violation("watch-startup: no watcher", desc, json!({"engine": "seqcheck", "check": "C06-startup"})),
                    Ok(Err(e)) => rep.violation(format!("watch-startup-fails-on: {}", if matches!(s2, Some(s) if *s != "existing file" && *s != "existing directory" && *s != "empty directory") && i < 3 { s2.unwrap() } else { s1 }), format!("watching could not begin ({}): {:#}", desc, e), json!({"engine": "seqcheck", "check": "C06-startup", "resource1": s1, "resource2": s2, "extensions": exts})),
                    Err(_) => rep.violation("watch-startup-panics", desc, json!({"engine": "seqcheck", "check": "C06-startup"})),
                }
                let _ = std::fs::remove_dir_all(&root);
            }
        }
    }
    rep.add_u64("watch_startup_cases", cases);
    rep.add_u64("transitions", cases);
}
