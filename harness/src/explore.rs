//! Stateless depth-first exploration with exact-key deduplication (DESIGN §3.5).
use crate::sys::*;
use serde::{Deserialize, Serialize};
use std::collections::{BTreeMap, HashSet};
use std::sync::atomic::{AtomicBool, AtomicU64, AtomicUsize, Ordering};
use std::sync::{Arc, Mutex};
use std::time::{Duration, Instant};

#[derive(Clone, Debug, Serialize, Deserialize)]
pub struct Finding {
    pub fingerprint: String,
    pub detail: String,
    pub cfg: Cfg,
    pub actions: Vec<Action>,
}

/// Per-execution context handed to monitors.
#[derive(Default)]
pub struct Ctx {
    pub findings: Vec<(String, String)>,
    pub counters: BTreeMap<String, u64>,
}
impl Ctx {
    pub fn violation(&mut self, fingerprint: impl Into<String>, detail: impl Into<String>) {
        self.findings.push((fingerprint.into(), detail.into()));
    }
    pub fn count(&mut self, name: &str) {
        *self.counters.entry(name.to_string()).or_insert(0) += 1;
    }
}

pub type StepFn = dyn Fn(&Sys, usize, &mut Ctx) + Send + Sync;
pub type TermFn = dyn Fn(&Sys, &mut Ctx) -> String + Send + Sync;

pub struct Checks {
    /// called once per executed transition with the index of the first new event
    pub step: Box<StepFn>,
    /// called at every terminal state; returns the terminal observation
    pub terminal: Box<TermFn>,
}

#[derive(Clone, Debug, Default, Serialize, Deserialize)]
pub struct Stats {
    pub states: u64,
    pub transitions: u64,
    pub executions: u64,
    pub max_depth: u64,
    pub terminals: u64,
    pub observations: BTreeMap<String, u64>,
    pub action_counts: BTreeMap<String, u64>,
    pub counters: BTreeMap<String, u64>,
    pub capped: bool,
    pub wall_s: f64,
    #[serde(skip)]
    pub findings: BTreeMap<String, Finding>,
    pub sample_terminal_trace: Vec<Action>,
}
impl Stats {
    pub fn merge(&mut self, o: &Stats) {
        self.states += o.states;
        self.transitions += o.transitions;
        self.executions += o.executions;
        self.max_depth = self.max_depth.max(o.max_depth);
        self.terminals += o.terminals;
        for (k, v) in &o.observations {
            *self.observations.entry(k.clone()).or_insert(0) += v;
        }
        for (k, v) in &o.action_counts {
            *self.action_counts.entry(k.clone()).or_insert(0) += v;
        }
        for (k, v) in &o.counters {
            *self.counters.entry(k.clone()).or_insert(0) += v;
        }
        self.capped |= o.capped;
        for (k, f) in &o.findings {
            match self.findings.get(k) {
                Some(old) if old.actions.len() <= f.actions.len() => {}
                _ => {
                    self.findings.insert(k.clone(), f.clone());
                }
            }
        }
        if self.sample_terminal_trace.is_empty() {
            self.sample_terminal_trace = o.sample_terminal_trace.clone();
        }
    }
}

#[derive(Clone)]
pub struct Opts {
    pub threads: usize,
    pub max_states: u64,
    pub deadline: Option<Instant>,
    pub max_depth: usize,
    pub scratch_root: std::path::PathBuf,
}
impl Default for Opts {
    fn default() -> Self {
        Opts { threads: 1, max_states: 5_000_000, deadline: None, max_depth: 4000, scratch_root: scratch_root() }
    }
}

pub fn scratch_root() -> std::path::PathBuf {
    // fixed-length names: some records embed absolute paths and their lengths must be comparable across processes
    let base = std::env::var("VERIF_SCRATCH").unwrap_or_else(|_| format!("/dev/shm/zv-{:08}-w99", std::process::id()));
    std::path::PathBuf::from(base)
}

struct Node {
    parent: Option<Arc<Node>>,
    act: Action,
}
fn path_of(n: &Option<Arc<Node>>) -> Vec<Action> {
    let mut v = vec![];
    let mut cur = n.clone();
    while let Some(c) = cur {
        v.push(c.act.clone());
        cur = c.parent.clone();
    }
    v.reverse();
    v
}

struct SharedX {
    stack: Mutex<Vec<Arc<Node>>>,
    active: AtomicUsize,
    visited: Vec<Mutex<HashSet<u128>>>,
    nstates: AtomicU64,
    stop: AtomicBool,
    panicked: AtomicBool,
}
impl SharedX {
    fn insert(&self, k: u128) -> bool {
        let shard = (k as usize) % self.visited.len();
        self.visited[shard].lock().unwrap().insert(k)
    }
}

fn act_name(a: &Action) -> &'static str {
    match a {
        Action::Relay => "relay",
        Action::Recv(_) => "recv",
        Action::Send(_) => "send",
        Action::Finish(_, 0) => "finish_ok",
        Action::Finish(_, _) => "finish_fail",
        Action::Term(_) => "term",
        Action::Inval(_) => "inval",
        Action::Sigterm => "sigterm",
        Action::RelayTerm => "relay_term",
        Action::Notify(_) => "notify",
        Action::Change(_) => "change",
        Action::NotifyFile(_, _) => "notify_file",
        Action::Release(_, _) => "release",
    }
}

fn run_one(cfg: &Arc<Cfg>, checks: &Checks, opts: &Opts, sh: &SharedX, start: Option<Arc<Node>>, st: &mut Stats, scratch: &Option<std::path::PathBuf>) {
    let mut sys = Sys::new(cfg.clone(), scratch.clone());
    st.executions += 1;
    let prefix = path_of(&start);
    let mut ctx = Ctx::default();
    if prefix.is_empty() {
        (checks.step)(&sys, 0, &mut ctx);
    }
    for (k, a) in prefix.iter().enumerate() {
        let last = k + 1 == prefix.len();
        if !sys.enabled().contains(a) {
            panic!("MACHINERY: replay divergence at step {} ({:?}) of {:?}; enabled={:?}; cfg={}", k, a, prefix, sys.enabled(), cfg.short());
        }
        let ev0 = sys.events_len();
        sys.apply(a);
        if last {
            *st.action_counts.entry(act_name(a).to_string()).or_insert(0) += 1;
            (checks.step)(&sys, ev0, &mut ctx);
        }
    }
    let mut node = start;
    let mut depth = prefix.len();
    loop {
        if !ctx.findings.is_empty() {
            for (fp, detail) in ctx.findings.drain(..) {
                let f = Finding { fingerprint: fp.clone(), detail, cfg: (**cfg).clone(), actions: sys.applied.clone() };
                match st.findings.get(&fp) {
                    Some(old) if old.actions.len() <= f.actions.len() => {}
                    _ => {
                        st.findings.insert(fp, f);
                    }
                }
            }
        }
        let k = sys.key();
        if !sh.insert(k) {
            break;
        }
        st.states += 1;
        let n = sh.nstates.fetch_add(1, Ordering::Relaxed) + 1;
        st.max_depth = st.max_depth.max(depth as u64);
        if n >= opts.max_states || opts.deadline.map(|d| Instant::now() > d).unwrap_or(false) {
            sh.stop.store(true, Ordering::SeqCst);
            st.capped = true;
        }
        if sh.stop.load(Ordering::SeqCst) {
            st.capped = true;
            break;
        }
        let en = sys.enabled();
        if en.is_empty() {
            st.terminals += 1;
            let obs = (checks.terminal)(&sys, &mut ctx);
            *st.observations.entry(obs).or_insert(0) += 1;
            if st.sample_terminal_trace.is_empty() || sys.applied.len() < st.sample_terminal_trace.len() {
                st.sample_terminal_trace = sys.applied.clone();
            }
            for (fp, detail) in ctx.findings.drain(..) {
                let f = Finding { fingerprint: fp.clone(), detail, cfg: (**cfg).clone(), actions: sys.applied.clone() };
                match st.findings.get(&fp) {
                    Some(old) if old.actions.len() <= f.actions.len() => {}
                    _ => {
                        st.findings.insert(fp, f);
                    }
                }
            }
            break;
        }
        if depth >= opts.max_depth {
            ctx.violation("unbounded-execution", format!("execution exceeded {} actions (livelock?)", opts.max_depth));
            continue;
        }
        st.transitions += en.len() as u64;
        if en.len() > 1 {
            let mut stack = sh.stack.lock().unwrap();
            for alt in en.iter().skip(1).rev() {
                stack.push(Arc::new(Node { parent: node.clone(), act: alt.clone() }));
            }
        }
        let ev0 = sys.events_len();
        sys.apply(&en[0]);
        *st.action_counts.entry(act_name(&en[0]).to_string()).or_insert(0) += 1;
        node = Some(Arc::new(Node { parent: node, act: en[0].clone() }));
        depth += 1;
        (checks.step)(&sys, ev0, &mut ctx);
    }
    for (k, v) in ctx.counters {
        *st.counters.entry(k).or_insert(0) += v;
    }
}

static SCRATCH_SEQ: AtomicU64 = AtomicU64::new(0);

/// Explore every schedule of `cfg`. Exhaustive unless `capped` is set in the result.
pub fn explore(cfg: &Arc<Cfg>, checks: &Checks, opts: &Opts) -> Stats {
    let t0 = Instant::now();
    let sh = SharedX {
        stack: Mutex::new(vec![]),
        active: AtomicUsize::new(0),
        visited: (0..64).map(|_| Mutex::new(HashSet::new())).collect(),
        nstates: AtomicU64::new(0),
        stop: AtomicBool::new(false),
        panicked: AtomicBool::new(false),
    };
    let total = Mutex::new(Stats::default());
    let threads = opts.threads.max(1);
    let first_done = AtomicBool::new(false);
    std::thread::scope(|scope| {
        for wi in 0..threads {
            let sh = &sh;
            let total = &total;
            let first_done = &first_done;
            scope.spawn(move || {
                let scratch = if cfg.real_incremental {
                    Some(opts.scratch_root.join(format!("x{}", SCRATCH_SEQ.fetch_add(1, Ordering::SeqCst))))
                } else {
                    None
                };
                let mut st = Stats::default();
                // a panic in one worker (machinery error) must not leave the others waiting for it for ever
                let mut guarded = |start: Option<Arc<Node>>, st: &mut Stats| {
                    let r = std::panic::catch_unwind(std::panic::AssertUnwindSafe(|| run_one(cfg, checks, opts, sh, start, st, &scratch)));
                    if r.is_err() {
                        sh.panicked.store(true, Ordering::SeqCst);
                        sh.stop.store(true, Ordering::SeqCst);
                    }
                };
                if wi == 0 {
                    sh.active.fetch_add(1, Ordering::SeqCst);
                    guarded(None, &mut st);
                    first_done.store(true, Ordering::SeqCst);
                    sh.active.fetch_sub(1, Ordering::SeqCst);
                }
                loop {
                    let item = {
                        let mut stack = sh.stack.lock().unwrap();
                        let it = stack.pop();
                        if it.is_some() {
                            sh.active.fetch_add(1, Ordering::SeqCst);
                        }
                        it
                    };
                    match item {
                        Some(n) => {
                            if !sh.stop.load(Ordering::SeqCst) {
                                guarded(Some(n), &mut st);
                            }
                            sh.active.fetch_sub(1, Ordering::SeqCst);
                        }
                        None => {
                            if first_done.load(Ordering::SeqCst) && sh.active.load(Ordering::SeqCst) == 0 && sh.stack.lock().unwrap().is_empty() {
                                break;
                            }
                            std::thread::sleep(Duration::from_micros(200));
                        }
                    }
                }
                if let Some(s) = &scratch {
                    let _ = std::fs::remove_dir_all(s);
                }
                total.lock().unwrap().merge(&st);
            });
        }
    });
    if sh.panicked.load(Ordering::SeqCst) {
        panic!("MACHINERY: an exploration worker panicked (see above) on {}", cfg.short());
    }
    let mut st = total.into_inner().unwrap();
    st.wall_s = t0.elapsed().as_secs_f64();
    st
}

/// Run `f` over all items on `threads` worker threads, preserving order of results.
pub fn par_map<T: Sync, R: Send>(items: &[T], threads: usize, f: impl Fn(&T) -> R + Sync) -> Vec<R> {
    let next = AtomicUsize::new(0);
    let out: Mutex<Vec<(usize, R)>> = Mutex::new(Vec::with_capacity(items.len()));
    std::thread::scope(|scope| {
        for _ in 0..threads.max(1).min(items.len().max(1)) {
            scope.spawn(|| loop {
                let i = next.fetch_add(1, Ordering::SeqCst);
                if i >= items.len() {
                    break;
                }
                let r = f(&items[i]);
                out.lock().unwrap().push((i, r));
            });
        }
    });
    let mut v = out.into_inner().unwrap();
    v.sort_by_key(|(i, _)| *i);
    v.into_iter().map(|(_, r)| r).collect()
}

/// Re-execute an action list and return the full observation log (for replay and determinism checks).
pub fn replay(cfg: &Arc<Cfg>, actions: &[Action], scratch: Option<std::path::PathBuf>) -> Result<(Vec<crate::world::Ev>, Sys), String> {
    let mut sys = Sys::new(cfg.clone(), scratch);
    for (k, a) in actions.iter().enumerate() {
        let en = sys.enabled();
        if !en.contains(a) {
            return Err(format!("replay divergence at step {}: {:?} not enabled; enabled={:?}", k, a, en));
        }
        sys.apply(a);
    }
    let ev = sys.events_from(0);
    Ok((ev, sys))
}
