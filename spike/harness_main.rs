// SPIKE: drive the real zinoma engine on a custom executor; naive stateless DFS + exact-key dedup.
use async_std::channel::{self, Receiver, Sender};
use std::collections::{BTreeMap, HashMap, HashSet};
use std::future::Future;
use std::io;
use std::os::unix::process::ExitStatusExt;
use std::pin::Pin;
use std::process::ExitStatus;
use std::sync::atomic::{AtomicBool, Ordering};
use std::sync::{Arc, Mutex};
use std::task::{Context, Poll, Wake, Waker};
use zinoma::verif::{self, BoxFut, ProcKind, Slot, VChild, World};
use zinoma::verif_api::domain::*;
use zinoma::verif_api::engine::{self, *};
use zinoma::verif_api::TerminationMessage;

// ---------- executor ----------
struct TaskWaker {
    woken: AtomicBool,
    thread: std::thread::Thread,
}
impl Wake for TaskWaker {
    fn wake(self: Arc<Self>) {
        self.woken.store(true, Ordering::SeqCst);
        self.thread.unpark();
    }
}
struct Task {
    name: String,
    fut: Option<Pin<Box<dyn Future<Output = ()>>>>,
    waker: Arc<TaskWaker>,
}

// ---------- gate ----------
struct Gate {
    open: AtomicBool,
    waker: Mutex<Option<Waker>>,
}
struct GateFut(Arc<Gate>);
impl Future for GateFut {
    type Output = ();
    fn poll(self: Pin<&mut Self>, cx: &mut Context<'_>) -> Poll<()> {
        if self.0.open.load(Ordering::SeqCst) {
            Poll::Ready(())
        } else {
            *self.0.waker.lock().unwrap() = Some(cx.waker().clone());
            Poll::Pending
        }
    }
}
fn open_gate(g: &Arc<Gate>) {
    g.open.store(true, Ordering::SeqCst);
    if let Some(w) = g.waker.lock().unwrap().take() {
        w.wake()
    }
}

// ---------- virtual child ----------
#[derive(Default)]
struct ChildState {
    status: Option<i32>, // raw wait status
    killed: bool,
    reaped: bool,
    waker: Option<Waker>,
}
struct VC(Arc<Mutex<ChildState>>);
impl VChild for VC {
    fn kill(&self) -> io::Result<()> {
        let mut s = self.0.lock().unwrap();
        s.killed = true;
        if s.status.is_none() {
            s.status = Some(9);
        }
        if let Some(w) = s.waker.take() {
            w.wake()
        }
        Ok(())
    }
    fn status(&self) -> BoxFut<io::Result<ExitStatus>> {
        let st = self.0.clone();
        Box::pin(std::future::poll_fn(move |cx| {
            let mut s = st.lock().unwrap();
            match s.status {
                Some(raw) => {
                    s.reaped = true;
                    Poll::Ready(Ok(ExitStatus::from_raw(raw)))
                }
                None => {
                    s.waker = Some(cx.waker().clone());
                    Poll::Pending
                }
            }
        }))
    }
}

// ---------- world ----------
#[derive(Default)]
struct Inner {
    new_tasks: Vec<(String, BoxFut<()>, Arc<Gate>)>,
    pumps: BTreeMap<(String, Slot), (Box<dyn FnMut() -> Option<String> + Send>, Box<dyn Fn() -> usize + Send>)>,
    send_gate: BTreeMap<String, Arc<Gate>>, // actor parked before a send
    sending: HashSet<String>,               // between before_send grant and after_send
    busy: HashSet<String>,
    children: BTreeMap<String, Vec<Arc<Mutex<ChildState>>>>,
    hist: BTreeMap<String, Vec<String>>, // per-actor consumed events / sends
    starts: Vec<String>,
    notifiers: BTreeMap<String, Box<dyn Fn() -> bool + Send>>,
    spawn_snapshots: Vec<String>,
}
struct W(Mutex<Inner>);
impl World for W {
    fn spawn_actor(&self, id: &TargetId, fut: BoxFut<()>) -> BoxFut<()> {
        let done = Arc::new(Gate { open: AtomicBool::new(false), waker: Mutex::new(None) });
        self.0.lock().unwrap().new_tasks.push((id.to_string(), fut, done.clone()));
        Box::pin(GateFut(done))
    }
    fn register_pump(&self, id: &TargetId, slot: Slot, pump: Box<dyn FnMut() -> Option<String> + Send>, len: Box<dyn Fn() -> usize + Send>) {
        self.0.lock().unwrap().pumps.insert((id.to_string(), slot), (pump, len));
    }
    fn before_send(&self, id: &TargetId) -> BoxFut<()> {
        let g = Arc::new(Gate { open: AtomicBool::new(false), waker: Mutex::new(None) });
        self.0.lock().unwrap().send_gate.insert(id.to_string(), g.clone());
        Box::pin(GateFut(g))
    }
    fn after_send(&self, id: &TargetId) {
        self.0.lock().unwrap().sending.remove(&id.to_string());
    }
    fn spawn_child(&self, id: &TargetId, _kind: ProcKind) -> io::Result<Arc<dyn VChild>> {
        let st = Arc::new(Mutex::new(ChildState::default()));
        let mut i = self.0.lock().unwrap();
        i.children.entry(id.to_string()).or_default().push(st.clone());
        i.starts.push(id.to_string());
        i.spawn_snapshots.push(std::fs::read_to_string("/dev/shm/zvspike/w/in.txt").unwrap_or_default());
        i.hist.entry(id.to_string()).or_default().push("spawn".into());
        Ok(Arc::new(VC(st)))
    }
    fn busy(&self, id: &TargetId, on: bool) {
        let mut i = self.0.lock().unwrap();
        if on { i.busy.insert(id.to_string()); } else { i.busy.remove(&id.to_string()); }
    }
    fn inbox_cap(&self) -> Option<usize> { None }
    fn register_notifier(&self, id: &TargetId, n: Box<dyn Fn() -> bool + Send>) { self.0.lock().unwrap().notifiers.insert(id.to_string(), n); }
}

#[derive(Clone, Debug, PartialEq, Eq, Hash, PartialOrd, Ord)]
enum Action {
    Relay,
    Recv(String),
    Term(String),
    Send(String),
    Finish(String, i32),
    Inval(String),
}

struct Sys {
    w: Arc<W>,
    tasks: Vec<Task>,
    q_rx: Receiver<TargetActorOutputMessage>,
    stage_tx: Sender<TargetActorOutputMessage>,
    main_done: Arc<Mutex<Option<Result<(), String>>>>,
    relay_hist: Vec<String>,
    polls: u64,
}

fn tid(name: &str) -> TargetId { TargetId { project_name: None, target_name: name.to_string() } }

fn build_targets(cfg: &[(&str, char, &[&str])]) -> HashMap<TargetId, Target> {
    let mut m = HashMap::new();
    for (name, kind, deps) in cfg {
        let metadata = TargetMetadata { id: tid(name), project_dir: "/dev/shm/zvspike".into(), dependencies: deps.iter().map(|d| tid(d)).collect() };
        let t = match kind {
            'B' => Target::Build(BuildTarget { metadata, build_script: ":".into(), input: Resources::new(), output: Resources::new() }),
            'S' => Target::Service(ServiceTarget { metadata, run_script: ":".into(), input: Resources::new() }),
            _ => Target::Aggregate(AggregateTarget { metadata }),
        };
        m.insert(tid(name), t);
    }
    m
}

impl Sys {
    fn new(cfg: &[(&str, char, &[&str])], roots: &[&str]) -> Sys { Sys::new_custom(build_targets(cfg), roots, false) }
    fn new_custom(targets: HashMap<TargetId, Target>, roots: &[&str], watch: bool) -> Sys {
        let w = Arc::new(W(Mutex::new(Inner::default())));
        verif::install(Some(w.clone() as Arc<dyn World>));
        let wo = if watch { WatchOption::Enabled } else { WatchOption::Disabled };
        let (q_tx, q_rx) = channel::bounded(64);
        let (stage_tx, stage_rx) = channel::bounded(1);
        let (_term_tx, term_rx) = channel::bounded::<TerminationMessage>(1);
        let roots: Vec<TargetId> = roots.iter().map(|r| tid(r)).collect();
        let main_done = Arc::new(Mutex::new(None));
        let md = main_done.clone();
        let q_rx_close = q_rx.clone();
        let main = async move {
            let _keep = _term_tx;
            let mut tas = TargetActors::new(targets, q_tx, wo);
            let r = engine::run(roots, wo, &mut tas, term_rx, stage_rx).await;
            q_rx_close.close();
            tas.terminate().await;
            *md.lock().unwrap() = Some(r.map_err(|e| format!("{:#}", e)));
        };
        let mut s = Sys { w, tasks: vec![], q_rx, stage_tx, main_done, relay_hist: vec![], polls: 0 };
        s.add_task("main".into(), Box::pin(main));
        s.settle();
        s
    }
    fn add_task(&mut self, name: String, fut: Pin<Box<dyn Future<Output = ()>>>) {
        let waker = Arc::new(TaskWaker { woken: AtomicBool::new(true), thread: std::thread::current() });
        self.tasks.push(Task { name, fut: Some(fut), waker });
    }
    /// run woken tasks until nothing is woken and no internal I/O is outstanding
    fn settle(&mut self) {
        loop {
            let mut progressed = false;
            // adopt newly spawned actors
            let new: Vec<_> = std::mem::take(&mut self.w.0.lock().unwrap().new_tasks);
            for (name, fut, done) in new {
                let f = async move { fut.await; open_gate(&done); };
                self.add_task(name, Box::pin(f));
                progressed = true;
            }
            for i in 0..self.tasks.len() {
                if self.tasks[i].fut.is_some() && self.tasks[i].waker.woken.swap(false, Ordering::SeqCst) {
                    let waker = Waker::from(self.tasks[i].waker.clone());
                    let mut cx = Context::from_waker(&waker);
                    self.polls += 1;
                    let done = self.tasks[i].fut.as_mut().unwrap().as_mut().poll(&mut cx).is_ready();
                    if done { self.tasks[i].fut = None; }
                    progressed = true;
                }
            }
            if progressed { continue; }
            if std::env::var("COARSE").is_ok() {
                let g = { let mut i = self.w.0.lock().unwrap(); let k = i.send_gate.keys().next().cloned(); k.map(|k| { let g = i.send_gate.remove(&k).unwrap(); i.sending.insert(k.clone()); i.hist.entry(k).or_default().push("send".into()); g }) };
                if let Some(g) = g { open_gate(&g); continue; }
            }
            // internal I/O outstanding? busy actors whose child is not waiting on us
            let internal = {
                let i = self.w.0.lock().unwrap();
                i.busy.iter().any(|a| {
                    let waiting = i.children.get(a).and_then(|v| v.last()).map(|c| { let c = c.lock().unwrap(); c.status.is_none() && c.waker.is_some() }).unwrap_or(false);
                    !waiting && !i.send_gate.contains_key(a)
                })
            };
            // also: main waiting on join of finished actors (cross-thread wake from async-std shells)
            let joining = self.main_done.lock().unwrap().is_none() && self.tasks.iter().skip(1).all(|t| t.fut.is_none()) && self.tasks.len() > 1 && self.q_rx.is_closed();
            if internal || joining {
                std::thread::park_timeout(std::time::Duration::from_millis(200));
                continue;
            }
            break;
        }
    }
    fn idle(&self, i: &Inner, a: &str) -> bool {
        !i.send_gate.contains_key(a) && !i.sending.contains(a) && self.tasks.iter().any(|t| t.name == a && t.fut.is_some())
            && !(i.busy.contains(a) && !i.children.get(a).and_then(|v| v.last()).map(|c| c.lock().unwrap().status.is_none()).unwrap_or(false))
    }
    fn enabled(&self) -> Vec<Action> {
        let i = self.w.0.lock().unwrap();
        let mut v = vec![];
        if std::env::var("EAGER").is_err() && !self.q_rx.is_closed() && self.q_rx.len() > 0 && self.stage_tx.is_empty() { v.push(Action::Relay); }
        for ((a, slot), (_, len)) in i.pumps.iter() {
            if len() > 0 && self.idle(&i, a) {
                match slot { Slot::Inbox => v.push(Action::Recv(a.clone())), Slot::Termination => v.push(Action::Term(a.clone())), Slot::Invalidation => v.push(Action::Inval(a.clone())) }
            }
        }
        for a in i.send_gate.keys() { v.push(Action::Send(a.clone())); }
        for (a, cs) in i.children.iter() {
            if let Some(c) = cs.last() { if c.lock().unwrap().status.is_none() && self.idle(&i, a) { v.push(Action::Finish(a.clone(), 0)); } }
        }
        v.sort();
        v
    }
    fn apply(&mut self, act: &Action) {
        {
            let mut i = self.w.0.lock().unwrap();
            match act {
                Action::Relay => { let m = self.q_rx.try_recv().unwrap(); self.relay_hist.push(format!("{:?}", m)); self.stage_tx.try_send(m).ok().unwrap(); }
                Action::Recv(a) => { let d = (i.pumps.get_mut(&(a.clone(), Slot::Inbox)).unwrap().0)().unwrap(); i.hist.entry(a.clone()).or_default().push(d); }
                Action::Term(a) => { let d = (i.pumps.get_mut(&(a.clone(), Slot::Termination)).unwrap().0)().unwrap(); i.hist.entry(a.clone()).or_default().push(d); }
                Action::Send(a) => { let g = i.send_gate.remove(a).unwrap(); i.sending.insert(a.clone()); i.hist.entry(a.clone()).or_default().push("send".into()); open_gate(&g); }
                Action::Inval(a) => { let d = (i.pumps.get_mut(&(a.clone(), Slot::Invalidation)).unwrap().0)().unwrap(); i.hist.entry(a.clone()).or_default().push(d); }
                Action::Finish(a, code) => { if std::env::var("EFFECT").is_ok() { let snap = i.spawn_snapshots.last().cloned().unwrap_or_default(); std::fs::write("/dev/shm/zvspike/w/out.txt", format!("built from {}", snap)).unwrap(); } let c = i.children[a].last().unwrap().clone(); let mut c = c.lock().unwrap(); c.status = Some(code << 8); if let Some(w) = c.waker.take() { w.wake() } i.hist.entry(a.clone()).or_default().push(format!("finish{}", code)); }
            }
        }
        self.settle();
        if std::env::var("EAGER").is_ok() {
            while !self.q_rx.is_closed() && self.q_rx.len() > 0 && self.stage_tx.is_empty() {
                let m = self.q_rx.try_recv().unwrap(); self.relay_hist.push(String::new()); self.stage_tx.try_send(m).ok().unwrap();
                self.settle();
            }
        }
    }
    fn key(&self) -> String {
        let i = self.w.0.lock().unwrap();
        let q: Vec<usize> = i.pumps.values().map(|(_, len)| len()).collect();
        if std::env::var("EAGER").is_ok() { return format!("{:?}|{:?}|{:?}", i.hist, q, self.main_done.lock().unwrap()); }
        format!("{:?}|{:?}|{:?}|{}|{:?}", i.hist, self.relay_hist.len(), q, self.q_rx.len(), self.main_done.lock().unwrap())
    }
}

struct Stats { execs: u64, states: HashSet<u64>, t0: std::time::Instant, last: u64, transitions: u64, terminals: u64, deadlocks: Vec<Vec<Action>>, outcomes: HashSet<String>, max_depth: usize }

fn explore(cfg: &[(&str, char, &[&str])], roots: &[&str], prefix: Vec<Action>, st: &mut Stats) {
    // replay prefix, then continue with first unexplored choice; recurse on alternatives
    let mut sys = Sys::new(cfg, roots);
    st.execs += 1;
    for a in &prefix { assert!(sys.enabled().contains(a), "replay divergence at {:?}", a); sys.apply(a); }
    let mut path = prefix.clone();
    let mut pending: Vec<Vec<Action>> = vec![];
    loop {
        let k = sys.key();
        let en = sys.enabled();
        let hk = { use std::hash::{Hash, Hasher}; let mut h = std::collections::hash_map::DefaultHasher::new(); k.hash(&mut h); h.finish() };
        if !st.states.insert(hk) && !path.is_empty() { break; }
        let el = st.t0.elapsed().as_secs(); if el >= st.last + 20 { st.last = el; eprintln!("t={}s states={} execs={} terminals={} deadlocks={}", el, st.states.len(), st.execs, st.terminals, st.deadlocks.len()); } // seen before: stop this execution
        st.max_depth = st.max_depth.max(path.len());
        if en.is_empty() {
            st.terminals += 1;
            let done = sys.main_done.lock().unwrap().clone();
            let starts = sys.w.0.lock().unwrap().starts.clone();
            st.outcomes.insert(format!("{:?} starts={:?}", done, { let mut s = starts.clone(); s.sort(); s }));
            if done.is_none() { st.deadlocks.push(path.clone()); }
            break;
        }
        for alt in en.iter().skip(1) { let mut p = path.clone(); p.push(alt.clone()); pending.push(p); }
        st.transitions += en.len() as u64;
        path.push(en[0].clone());
        sys.apply(&en[0]);
    }
    drop(sys);
    for p in pending { explore(cfg, roots, p, st); }
}

fn main() {
    std::fs::create_dir_all("/dev/shm/zvspike").ok();
    let which = std::env::args().nth(1).unwrap_or("two".into());
    if which == "watchf4" { return watch_f4(); }
    let (cfg, roots): (Vec<(&str, char, &[&str])>, Vec<&str>) = match which.as_str() {
        "two" => (vec![("a", 'B', &["d"]), ("d", 'B', &[])], vec!["a", "d"]),
        "chain" => (vec![("a", 'B', &["d"]), ("d", 'B', &[])], vec!["a"]),
        "diamond" => (vec![("a", 'B', &["b", "c"]), ("b", 'B', &["d"]), ("c", 'B', &["d"]), ("d", 'B', &[])], vec!["a"]),
        "agg" => (vec![("a", 'A', &["s", "b"]), ("s", 'S', &[]), ("b", 'B', &[])], vec!["a"]),
        _ => panic!(),
    };
    let t0 = std::time::Instant::now();
    let mut st = Stats { execs: 0, states: HashSet::new(), t0: std::time::Instant::now(), last: 0, transitions: 0, terminals: 0, deadlocks: vec![], outcomes: HashSet::new(), max_depth: 0 };
    explore(&cfg, &roots, vec![], &mut st);
    println!("config={} execs={} states={} transitions={} terminals={} deadlocks={} max_depth={} wall={:?}", which, st.execs, st.states.len(), st.transitions, st.terminals, st.deadlocks.len(), st.max_depth, t0.elapsed());
    for o in &st.outcomes { println!("outcome: {}", o); }
    if let Some(d) = st.deadlocks.iter().min_by_key(|d| d.len()) { println!("shortest deadlock ({} steps): {:?}", d.len(), d); }
}

fn watch_f4() {
    let dir = "/dev/shm/zvspike/w";
    let _ = std::fs::remove_dir_all(dir);
    std::fs::create_dir_all(dir).unwrap();
    std::fs::write(format!("{}/in.txt", dir), "v1").unwrap();
    std::env::set_var("EFFECT", "1");
    let metadata = TargetMetadata { id: tid("t"), project_dir: dir.into(), dependencies: vec![] };
    let input = Resources { files: vec![FilesResource { paths: vec![format!("{}/in.txt", dir).into()], extensions: None }], cmds: vec![] };
    let output = Resources { files: vec![FilesResource { paths: vec![format!("{}/out.txt", dir).into()], extensions: None }], cmds: vec![] };
    let mut targets = HashMap::new();
    targets.insert(tid("t"), Target::Build(BuildTarget { metadata, build_script: ":".into(), input, output }));
    let mut sys = Sys::new_custom(targets, &["t"], true);
    let mut changed = false;
    let mut steps = 0;
    loop {
        let en = sys.enabled();
        println!("step {} enabled {:?}", steps, en);
        // environment: once the child is running, change the input and notify, before finishing it
        let running = en.iter().any(|a| matches!(a, Action::Finish(..)));
        if running && !changed {
            changed = true;
            std::thread::sleep(std::time::Duration::from_millis(5));
            std::fs::write(format!("{}/in.txt", dir), "v2").unwrap();
            let ok = (sys.w.0.lock().unwrap().notifiers["t"])();
            println!("  env: in.txt := v2 while t builds; notified={}", ok);
            continue;
        }
        // prefer Inval > Send > Relay > Recv > Finish
        let pick = en.iter().find(|a| matches!(a, Action::Inval(_)))
            .or(en.iter().find(|a| matches!(a, Action::Send(_))))
            .or(en.iter().find(|a| matches!(a, Action::Relay)))
            .or(en.iter().find(|a| matches!(a, Action::Recv(_))))
            .or(en.iter().find(|a| matches!(a, Action::Finish(..)))).cloned();
        match pick { Some(a) => { println!("  do {:?}", a); sys.apply(&a); } None => break }
        steps += 1;
        if steps > 60 { break; }
    }
    let i = sys.w.0.lock().unwrap();
    println!("quiescent. in.txt={:?} out.txt={:?} spawns={} hist(t)={:?}", std::fs::read_to_string(format!("{}/in.txt", dir)).unwrap(), std::fs::read_to_string(format!("{}/out.txt", dir)).ok(), i.starts.len(), i.hist.get("t"));
}
