#!/usr/bin/env python3
"""Apply every seeded change to a repository copy, run the quick checks listed in its meta.json
(plus --extra IDs), revert; write seeded/RESULTS.md. Repository copy: $ZV_REPO / $VP_RUN_REPO / /repo."""
import json, os, subprocess, sys, time
V = os.path.dirname(os.path.dirname(os.path.abspath(__file__)))
REPO = os.environ.get('ZV_REPO') or os.environ.get('VP_RUN_REPO') or '/repo'
os.environ['ZV_REPO'] = REPO
only = set(sys.argv[1:])
rows = []
def sh(cmd, cwd=None, timeout=2400):
    p = subprocess.run("timeout %d bash -c %s" % (timeout, json.dumps(cmd)), shell=True, cwd=cwd, stdout=subprocess.PIPE, stderr=subprocess.STDOUT, text=True)
    return p.returncode, p.stdout
sh("git checkout -- .", cwd=REPO)
for sid in sorted(os.listdir(os.path.join(V, 'seeded'))):
    d = os.path.join(V, 'seeded', sid)
    if not os.path.isdir(d) or (only and sid not in only):
        continue
    meta = json.load(open(os.path.join(d, 'meta.json')))
    rc, out = sh("git apply %s" % os.path.join(d, 'patch.diff'), cwd=REPO)
    if rc != 0:
        rows.append((sid, meta['property'], 'PATCH DOES NOT APPLY', []))
        continue
    res = []
    for c in meta['expected_checks']:
        t0 = time.time()
        rc, o = sh("./check %s --tier quick" % c, cwd=V)
        fps = [l.strip()[len("fingerprint: "):] for l in o.splitlines() if l.strip().startswith("fingerprint: ")]
        res.append((c, {0: 'not reported', 1: 'VIOLATION', 2: 'MACHINERY'}.get(rc, 'rc=%d' % rc), fps[:2], time.time() - t0))
        print(sid, c, res[-1][1], fps[:1], flush=True)
    sh("git checkout -- .", cwd=REPO)
    rows.append((sid, meta['property'], meta['change'], res))
    with open(os.path.join(V, 'seeded', 'RESULTS.md'), 'w') as f:
        f.write("| seeded change | breaks | what it is | quick checks run against it |\n|---|---|---|---|\n")
        for (s, p, ch, rs) in rows:
            f.write("| seeded/%s | %s | %s | %s |\n" % (s, p, ch, "<br>".join("%s: **%s** %s" % (c, v, ("— `" + " ; ".join(x[:120] for x in fp) + "`") if fp else "") for (c, v, fp, _) in rs)))
sh("./tools/build.sh", cwd=V)
