#!/bin/bash
# tools/seed_confirm.sh <SEED_ID> [demo args...]: confirm a seeded change in its scratch worktree only:
# the worktree diff equals patch.diff, the 38 tests pass with it, the demo fails with it and passes without it.
ID="$1"; shift
WT=/tmp/wt/$ID; OUT=/tmp/wtout/$ID
cd "$WT" || exit 2
git diff > $OUT/.current.diff
if diff -q <(grep -v '^index' $OUT/.current.diff) <(grep -v '^index' $OUT/patch.diff) >/dev/null; then echo "$ID worktree diff == patch.diff"; else echo "$ID WORKTREE DIFF DIFFERS from patch.diff: resetting worktree to patch.diff"; git checkout -- . ; git apply $OUT/patch.diff || exit 2; fi
TESTS=$(cargo test --workspace --no-fail-fast --offline 2>&1 | grep -E "test result" | sed 's/;.*//' | tr '\n' ' ')
echo "$ID tests with change: $TESTS"
cargo build --offline -q 2>/dev/null; cp target/debug/zinoma $OUT/zinoma.with
git apply -R $OUT/patch.diff; cargo build --offline -q 2>/dev/null; cp target/debug/zinoma $OUT/zinoma.without
git apply $OUT/patch.diff
( cd "$OUT" && timeout 900 bash demo.sh $OUT/zinoma.with "$@" >$OUT/demo.with.log 2>&1; echo "$ID demo with change: exit $?" )
( cd "$OUT" && timeout 900 bash demo.sh $OUT/zinoma.without "$@" >$OUT/demo.without.log 2>&1; echo "$ID demo without change: exit $?" )
