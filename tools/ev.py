#!/usr/bin/env python3
import json,sys
for id in sys.argv[1:]:
    e=json.load(open('/verif/evidence/%s.json'%id))
    c=e['coverage']
    print('==',id,e['tier'],'wall',round(e['wall_s'],1),'viol',e['violations'],'caps',c.get('caps_hit'), 'exh',c.get('exhaustive'))
    for k,v in c.get('parts',{}).items():
        print('  *',k)
        print('     ',{x:v[x] for x in ('configs','states','transitions','executions','terminal_states','distinct_terminal_observations')}, 'cpu',round(v['wall_cpu_s'],1))
        print('     ',v['monitor_antecedent_hits'])
    for k in c:
        if k not in ('parts','samples','caps_hit','exhaustive','states','transitions','executions','configs','max_depth','terminal_states','traces_validated_against_impl','known_findings_matched'):
            print('  ',k,'=',json.dumps(c[k])[:300])
