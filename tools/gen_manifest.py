#!/usr/bin/env python3
"""Regenerates /verif/MANIFEST.json from the table below (BUILT = properties with a working check)."""
import json, os
V = os.path.dirname(os.path.dirname(os.path.abspath(__file__)))
props = [json.loads(l) for l in open(os.path.join(V, 'properties.jsonl'))]
E1 = "actorcheck"; E2 = "seqcheck"; E3 = "binbox"
MC = "explicit-state model checking of the implementation (stateless DFS with state hashing under a controlled executor)"
BE = "bounded exhaustive enumeration of inputs/histories against a reference model (small-scope model checking of the real function)"
T = {
 "C01": (E1, "model_checking", "every schedule of every graph <=3 targets (+named 4-target shapes), one-shot and watch with 1-2 notifications: at every process start all dependency leaves finished/started and the last word consumed from each direct dependency is Ok", "virtual processes/watcher; bounds: graphs <=3 (+named 4), notification budget <=2", MC, "§6 C01"),
 "C04": (E1, "model_checking", "every schedule (message consumption order, send order, script completion) of every graph within bounds, reduced mode plus exact mode with queue capacities 1..3: the phase configurations with the real incremental runner (termination reaching a build outside its script phase) included; every terminal state exited 0 or is legitimately parked under a requested service", "virtual processes; the ten replicated wiring lines of main.rs; fan-out order ascending/descending only", MC, "§6 C04"),
 "C07": (E1, "model_checking", "every schedule x every subset of failing builds x unlaunchable leaves: no dependent of a failed target starts, the one-shot result is Err naming a failed target, watch mode keeps relaying and never acknowledges a failed execution", "virtual processes with harness-chosen exit status", MC, "§6 C07"),
 "C08": (E1, "model_checking", "every schedule of every graph <=3 targets x requested lists with duplicates/dependency+dependent: starts per target <=1 always and =1 on success", "closure scope outside the engine (ir.rs/main.rs) is C09's and binbox's part", MC, "§6 C08"),
 "C10": (E1, "model_checking", "exact mode: signal (arrival and consumption separated) or failure injected at every reachable state, afterwards no script ends by itself: every maximal path ends with run+terminate finished and every child killed-or-exited and reaped", "virtual processes: kill() ends the child at once; real signal delivery is binbox's part", MC, "§6 C10"),
 "C11": (E1, "model_checking", "every schedule of graphs containing services: requested service keeps the run parked, dependency-only service started before/live during/stopped after its dependents, restarts never overlap (watch with <=3 notifications)", "virtual processes; services never exit by themselves", MC, "§6 C11"),
 "C17": (E1, "model_checking", "for every target X the restricted system where nothing outside deps*(X) ever finishes: X starts on every maximal path; every independent pair has a reachable state with both in progress", "virtual processes", MC, "§6 C17"),
 "C20": (E1, "model_checking", "for every graph with an aggregate root: equality of the sets of terminal observations of request [A] and request deps(A), over all schedules, incl. failing builds", "observations = executed leaves, result class, liveness", MC, "§6 C20"),
 "C02": (E2, "model_checking", "all histories of <=2 (3) file-system operations between runs x resource declarations, real incremental runner vs reference record model: Skipped only when the reference allows it", "tmpfs scratch trees, explicit mtimes", BE, "§6 C02"),
 "C03": (E2, "model_checking", "all project layouts of the alphabet x invocation sequences over an untouched tree: a target with inputs and a stored state is skipped, a target without input always runs; plus every schedule of the build-cycle phase configurations (signal / sibling failure at every state): a script that ended with status 0 is on record when zinoma has exited", "tmpfs scratch trees; phase configurations run the real engine under the controlled executor", BE, "§6 C03"),
 "C05": (E2, "fault_enumeration", "every crash point of the build cycle, every prefix of the state write, byte corruptions x4 values at every offset, foreign files, every exit status: the next invocation never skips and never errs/panics/aborts", "crash = future never polled again and forgotten; subprocess isolation for aborts", "exhaustive crash-point and corruption enumeration on the real write/read path", "§6 C05"),
 "C06": (E1, "model_checking", "watch mode with the real incremental runner on real files and a virtual watcher: every schedule x every placement of <=2 (3) input changes; at quiescence outputs = f(current inputs)", "script effect read-at-start/write-at-end; watcher membership by the reference predicate", MC, "§6 C06"),
 "C09": (E2, "model_checking", "all digraphs <=3 nodes (cycles, self-loops, unknown references) x edge kind x node kind x project split x spelling x requested subset vs independent closure/cycle/kind computation", "in-memory yaml::Config values plus real-file pass for <=2 nodes", BE, "§6 C09"),
 "C12": (E3, "model_checking", "all file trees over the entry alphabet x output declarations x request modes against the real binary: full tree snapshot before/after vs independently computed deletion set", "real binary, tmpfs", BE, "§6 C12"),
 "C13": (E2, "model_checking", "producer/consumer layouts over 1-2 projects x edit histories <=2 of producer outputs: resolver output and rerun-iff-changed behaviour", "tmpfs", BE, "§6 C13"),
 "C14": (E2, "model_checking", "all documents of a bounded YAML grammar, all 1-byte deletions/truncations/insertions of seed documents, all import arrangements <=3 projects: never panic, strictness rules, project names injective", "subprocess isolation", BE, "§6 C14"),
 "C15": (E2, "model_checking", "all trees over the name/type alphabet x paths/extensions declarations: real lister vs independent walker", "a symlink to a regular file denotes that file; a declared path that is itself a symlink and files named .zinoma are don't-care", BE, "§6 C15"),
 "C16": (E2, "model_checking", "every name of the alphabet x {create,modify,rename,delete}, sequences <=2, through a real inotify watcher with an ordered sentinel: trigger iff reference predicate, watcher survives", "tmpfs inotify; ordering by sentinel not by time", BE, "§6 C16"),
 "C18": (E3, "model_checking", "all invocation sequences <=3 over differently rooted/flagged invocations of the real binary: final skip/build decision = reference (own resources + own last success)", "real binary", BE, "§6 C18"),
 "C19": (E2, "model_checking", "all project sets with overlapping names x every spelling of requests and references: resolved identity; both spellings run once", "in-crate resolver + real binary traces", BE, "§6 C19"),
}
BUILT = set(open(os.path.join(V, 'tools', 'built.txt')).read().split())
checks = []
for p in props:
    i = p['id']
    if i not in BUILT: continue
    eng, lvl, text, note, tech, ref = T[i]
    checks.append({"property_id": i, "quick_cmd": "./check %s --tier quick" % i, "thorough_cmd": "./check %s --tier thorough" % i,
      "evidence_file": "evidence/%s.json" % i, "replay_cmd_template": "./check --replay {path}", "engine": eng,
      "level_claimed": {"category": lvl, "text": text, "design_ref": "DESIGN.md " + ref}, "level_note": note, "technique": tech})
hooks_commits = open(os.path.join(V, 'tools', 'hook_commits.txt')).read().split()
m = {"version": 1, "setup_cmd": "./setup.sh",
 "hooks": {"guard": "zinoma_verif", "enable": "rustc --cfg zinoma_verif (RUSTFLAGS in harness/.cargo/config.toml and tools/build.sh); the harness compiles /repo/src/main.rs as a library through a generated manifest (tools/gen_lib_manifest.py)",
           "baseline_off_cmd": "cd /repo && cargo test --workspace --no-fail-fast --offline", "source_commits": hooks_commits, "add_only": True},
 "engines": [
  {"name": E1, "path": "harness/src/{world,sys,explore,e1}.rs", "serves_properties": [i for i in sorted(BUILT) if T[i][0]==E1], "kind_free_text": "explicit-state exploration of the real actor engine under a controlled single-threaded executor"},
  {"name": E2, "path": "harness/src/seq*.rs", "serves_properties": [i for i in sorted(BUILT) if T[i][0]==E2], "kind_free_text": "bounded exhaustive enumeration of the real sequential components against reference models"},
  {"name": E3, "path": "harness/src/binbox*.rs", "serves_properties": [i for i in sorted(BUILT) if T[i][0]==E3], "kind_free_text": "deterministic replays against the real binary built from the working tree"}],
 "checks": checks,
 "not_applicable": [{"property_id": p['id'], "reason": "check not finished yet in this round; planned engine: %s (DESIGN.md %s)" % (T[p['id']][0], T[p['id']][5])} for p in props if p['id'] not in BUILT],
 "notes": "One entry point: ./check <ID> [--tier quick|thorough]; ./check --replay <file>. Exit 2 = machinery error. The single non-additive hook line is the cfg-gated `use async_process::Child` in service_target_actor.rs (see DESIGN.md §7)."}
json.dump(m, open(os.path.join(V, 'MANIFEST.json'), 'w'), indent=1)
print("manifest: %d checks, %d not_applicable" % (len(checks), len(m['not_applicable'])))
