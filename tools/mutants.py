#!/usr/bin/env python3
"""Detection runs: apply each mutant (a realistic property-breaking edit) to a copy of the
repository, run the repository's own 38 tests (they must still pass for the mutant to count),
run the quick checks named for it, record the verdicts, revert.

usage: tools/mutants.py [--repo DIR] [--only name,name] [--out FILE]
The repository copy is $ZV_REPO (default: $VP_RUN_REPO, else /repo). Never leaves the copy modified.
"""
import json, os, re, subprocess, sys, time

V = os.path.dirname(os.path.dirname(os.path.abspath(__file__)))
args = sys.argv[1:]
def opt(name, default=None):
    if name in args:
        return args[args.index(name) + 1]
    return default
REPO = opt('--repo', os.environ.get('ZV_REPO') or os.environ.get('VP_RUN_REPO') or '/repo')
ONLY = set(opt('--only', '').split(',')) - {''}
SKIP = set(opt('--skip', '').split(',')) - {''}
OUT = opt('--out', os.path.join(V, 'mutants_out.md'))
os.environ['ZV_REPO'] = REPO

# (name, ids, file, old, new, what)
M = [
 ("should_execute-ignores-service-deps", ["C01"], "src/engine/target_actor/target_actor_helper.rs",
  "            && self.unavailable_dependencies[&ExecutionKind::Service].is_empty()\n", "",
  "a target starts without waiting for its service dependencies"),
 ("aggregate-acks-on-first-ok", ["C01", "C20"], "src/engine/target_actor/aggregate_target_actor.rs",
  "if removed && self.helper.unavailable_dependencies[&kind].is_empty() {", "if removed {",
  "an aggregate forwards Ok after the first acknowledgement instead of the last"),
 ("build-ignores-invalidated-dependency", ["C01", "C06"], "src/engine/target_actor/build_target_actor.rs",
  "self.helper.unavailable_dependencies.get_mut(&kind).unwrap().insert(target_id);\n\n                            if kind == ExecutionKind::Build {",
  "let _ = target_id;\n\n                            if kind == ExecutionKind::Build {",
  "Invalidated from a dependency does not make it unavailable again"),
 ("no-late-ack-for-services", ["C04", "C08", "C20"], "src/engine/target_actor/service_target_actor.rs",
  "                            if inserted {\n                                self.helper.notify_late_requester(ExecutionKind::Service, requester).await;\n                            }\n", "",
  "a service that already started never answers a later requester (F1 re-introduced for services)"),
 ("aggregate-acks-only-first-requester", ["C04", "C20"], "src/engine/target_actor/aggregate_target_actor.rs",
  "if self.helper.unavailable_dependencies[&kind].is_empty() {\n                                    let msg = ActorInputMessage::Ok {\n                                        kind,\n                                        target_id: self.helper.target_id.clone(),\n                                        actual: !dependencies[&kind].is_empty(),\n                                    };\n                                    self.helper.send_to_actor(requester, msg).await",
  "if is_first_insertion && self.helper.unavailable_dependencies[&kind].is_empty() {\n                                    let msg = ActorInputMessage::Ok {\n                                        kind,\n                                        target_id: self.helper.target_id.clone(),\n                                        actual: !dependencies[&kind].is_empty(),\n                                    };\n                                    self.helper.send_to_actor(requester, msg).await",
  "an aggregate whose dependencies are all ready acknowledges only its first requester"),
 ("bounded-inbox-again", ["C04", "C10"], "src/engine/target_actor/mod.rs",
  "let (target_actor_input_sender, target_actor_input_receiver) = channel::unbounded();",
  "let (target_actor_input_sender, target_actor_input_receiver) =\n        channel::bounded(crate::DEFAULT_CHANNEL_CAP);",
  "F2 re-introduced: bounded inbox, relay can block"),
 ("exit-255-counts-as-success", ["C05", "C07"], "src/engine/builder.rs",
  "if !exit_status.success() {", "if !exit_status.success() && exit_status.code() != Some(255) {",
  "a script exiting 255 is treated as completed"),
 ("ack-after-failure", ["C07"], "src/engine/target_actor/build_target_actor.rs",
  "Err(e) => self.helper.notify_execution_failed(e).await,",
  "Err(e) => {\n                            self.helper.notify_execution_failed(e).await;\n                            self.helper.notify_success(ExecutionKind::Build).await;\n                        }",
  "a failed build still acknowledges its requesters"),
 ("error-swallowed-by-relay", ["C07"], "src/engine/mod.rs",
  "return Err(e.context(format!(\"An issue occurred with target {}\", target_id)));",
  "log::warn!(\"{} - {}\", target_id, e);",
  "execute_once only logs a target failure"),
 ("dependencies-requested-on-every-request", ["C08"], "src/engine/target_actor/build_target_actor.rs",
  "if inserted && self.helper.requesters[&ExecutionKind::Build].len() == 1 {", "if inserted {",
  "dependencies are requested again by every new requester"),
 ("rebuild-on-late-request", ["C08"], "src/engine/target_actor/target_actor_helper.rs",
  "        if self.executed {\n            let msg = ActorInputMessage::Ok {", "        if self.executed && false {\n            let msg = ActorInputMessage::Ok {",
  "late requester is not acknowledged (generic helper disabled)"),
 ("termination-does-not-cancel-build", ["C10"], "src/engine/target_actor/build_target_actor.rs",
  "if ongoing_build_cancellation_sender.try_send(BuildCancellationMessage).is_err() {", "if false {",
  "a termination message no longer cancels the running build"),
 ("killed-service-not-reaped", ["C10"], "src/engine/target_actor/service_target_actor.rs",
  "            if let Err(e) = running_service.status().await {\n                log::warn!(\"{} - Failed to await killed service: {}\", target_id, e);\n            }\n", "",
  "a stopped service is killed but not awaited"),
 ("service-not-stopped-at-exit", ["C10", "C11"], "src/engine/target_actor/service_target_actor.rs",
  "            }\n        }\n\n        self.stop_service().await;\n    }", "            }\n        }\n    }",
  "the service actor leaves its process running when it terminates"),
 ("requested-service-does-not-keep-alive", ["C11", "C20"], "src/engine/mod.rs",
  "                                if actual {\n                                    service_root_targets.insert(target_id);", "                                if actual && false {\n                                    service_root_targets.insert(target_id);",
  "zinoma exits although a service was requested"),
 ("restart-spawns-before-stopping", ["C11"], "src/engine/target_actor/service_target_actor.rs",
  "        self.stop_service().await;\n\n        log::info!(\"{} - Starting service\", self.target.metadata.id);",
  "        log::info!(\"{} - Starting service\", self.target.metadata.id);",
  "restart_service no longer stops the old instance first (it is dropped un-killed when replaced)"),
 ("build-claims-to-be-a-service", ["C11", "C20"], "src/engine/target_actor/build_target_actor.rs",
  "kind: ExecutionKind::Service,\n                                target_id: self.helper.target_id.clone(),\n                                actual: false,",
  "kind: ExecutionKind::Service,\n                                target_id: self.helper.target_id.clone(),\n                                actual: true,",
  "a build answers a service request with actual: true: one-shot runs never exit"),
 ("global-build-lock", ["C17"], "src/engine/builder.rs",
  "    let target_start = Instant::now();", "    static BUILD_LOCK: async_std::sync::Mutex<()> = async_std::sync::Mutex::new(());\n    let _serialize = BUILD_LOCK.lock().await;\n    let target_start = Instant::now();",
  "builds are serialized by a global lock"),
 ("file-count-not-compared", ["C02"], "src/engine/incremental/resources_state/fs.rs",
  "        if files.len() != self.0.len() {\n            return false;\n        }\n", "",
  "a deleted declared file goes unnoticed"),
 ("hash-only-first-buffer", ["C02"], "src/engine/incremental/resources_state/fs.rs",
  "Hasher::write(&mut hasher, &buffer[..count]);", "Hasher::write(&mut hasher, &buffer[..count]);\n        break;",
  "only the first 1024 bytes of a file are hashed"),
 ("outputs-not-compared", ["C02"], "src/engine/incremental/mod.rs",
  "            eq(self.output.as_ref(), target_output),", "            eq(self.output.as_ref(), None),",
  "the output state is never compared"),
 ("missing-record-means-unchanged", ["C02", "C03", "C05"], "src/engine/incremental/mod.rs",
  "    } else {\n        false\n    }\n}\n\n#[derive(Serialize, Deserialize, PartialEq)]\npub struct TargetEnvState {",
  "    } else {\n        target_output.is_some() && false\n    }\n}\n\n#[derive(Serialize, Deserialize, PartialEq)]\npub struct TargetEnvState {",
  "control mutant (no behaviour change): must NOT be reported"),
 ("old-record-not-deleted-first", ["C05"], "src/engine/incremental/mod.rs",
  "    storage::delete_saved_env_state(target).await?;\n", "",
  "the previous record survives while the script runs"),
 ("record-saved-when-cancelled", ["C05"], "src/engine/incremental/mod.rs",
  "        BuildTerminationReport::Cancelled => Ok(IncrementalRunResult::Cancelled),",
  "        BuildTerminationReport::Cancelled => {\n            if let Ok(Some(env_state)) = TargetEnvState::with_current_output(input_state, target_output).await {\n                let _ = storage::save_env_state(target, env_state).await;\n            }\n            Ok(IncrementalRunResult::Cancelled)\n        }",
  "a cancelled build is recorded as done (needs a signal during a build: E1 part of C05 not built yet)"),
 ("input-state-after-script-again", ["C06"], "src/engine/incremental/mod.rs",
  "    let input_state = TargetEnvState::current_input(target_input).await;\n\n    let build_report = future.await?;",
  "    let build_report = future.await?;\n    let input_state = TargetEnvState::current_input(target_input).await;",
  "F4 re-introduced: input state computed after the script"),
 ("aggregate-does-not-forward-invalidation", ["C06", "C01"], "src/engine/target_actor/aggregate_target_actor.rs",
  "if inserted && self.helper.unavailable_dependencies[&kind].len() == 1 {", "if inserted && self.helper.unavailable_dependencies[&kind].len() == 2 {",
  "an aggregate forwards Invalidated only when two dependencies are out of date"),
 ("watch-notfound-again", ["C06"], "src/engine/watcher.rs",
  "        ErrorKind::Io(io_error) => io_error.kind() == std::io::ErrorKind::NotFound,\n", "",
  "F3 re-introduced"),
 ("cycle-check-dropped", ["C09"], "src/config/ir.rs",
  "            if parent_targets.contains(&target_id) {", "            if parent_targets.contains(&target_id) && parent_targets.len() > 64 {",
  "cycles are only detected at depth 64 (test fixtures have cycles: expected to fail the repo tests)"),
 ("bare-references-resolve-in-root-project", ["C09", "C19", "C13"], "src/config/ir.rs",
  "        TargetId::try_parse_many(get_dependencies(&yaml_target), &target_id.project_name)?;",
  "        TargetId::try_parse_many(get_dependencies(&yaml_target), &None)?;",
  "bare names in `dependencies` are looked up in the unnamed root project"),
 ("output-of-service-accepted", ["C09"], "src/config/ir.rs",
  "                    return Err(anyhow!(\n                        \"Target {} can not depend on {}'s output as it is not a build target\",\n                        target_id,\n                        dependency_id\n                    ));",
  "                    log::warn!(\"{} is not a build target ({})\", dependency_id, target_id);",
  "`.output` of a non-build target is accepted (an integration test covers services: expected to fail the repo tests)"),
 ("clean-ignores-extension-filter", ["C12"], "src/clean.rs",
  "            if resource.extensions.is_some() {", "            if resource.extensions.is_some() && resource.paths.len() > 1 {",
  "an extension-filtered output with a single path is removed as a whole"),
 ("clean-target-removes-whole-work-dir", ["C12", "C18"], "src/main.rs",
  "                for target in targets.values() {\n                    delete_saved_env_state(target.metadata()).await?;\n                }",
  "                for target in targets.values() {\n                    remove_work_dir(&target.metadata().project_dir).await?;\n                }",
  "`--clean T` wipes the state of every target of T's projects"),
 ("inherited-commands-dropped", ["C13"], "src/domain.rs",
  "        self.cmds.extend_from_slice(&other.cmds);\n", "",
  "command resources of X.output are not inherited"),
 ("inherited-commands-run-in-consumer-dir", ["C13"], "src/config/ir.rs",
  "                    target.extend_input(&dependency.output).unwrap();",
  "                    let mut inherited = dependency.output.clone();\n                    for cmd in inherited.cmds.iter_mut() {\n                        cmd.dir = target.metadata().project_dir.clone();\n                    }\n                    target.extend_input(&inherited).unwrap();",
  "inherited command resources run in the consumer's directory"),
 ("unknown-top-level-keys-accepted", ["C14"], "src/config/yaml/schema.rs",
  "#[derive(Debug, Serialize, Deserialize, JsonSchema)]\n#[serde(deny_unknown_fields)]\npub struct Project {", "#[derive(Debug, Serialize, Deserialize, JsonSchema)]\npub struct Project {",
  "unknown keys at the top level are ignored"),
 ("duplicate-names-again", ["C14"], "src/config/yaml/mod.rs",
  "        check_project_names_are_unique(&projects)?;\n", "",
  "F6 re-introduced"),
 ("work-dir-listed", ["C15", "C02"], "src/fs.rs",
  "            .filter_entry(|e| !is_work_dir(e))\n", "",
  "files under .zinoma are part of resources"),
 ("extension-compared-with-extension()", ["C15"], "src/domain.rs",
  "        extensions.iter().any(|ext| file_name.ends_with(ext))", "        extensions.iter().any(|ext| file_name.ends_with(ext) && !file_name.starts_with(ext.as_str()))",
  "a file whose whole name is the extension (`.csv`) no longer matches"),
 ("watcher-reports-work-dir", ["C16"], "src/engine/watcher.rs",
  "                            && !work_dir::is_in_work_dir(&path)\n", "",
  "state writes under .zinoma trigger the watcher"),
 ("watcher-swx-not-filtered", ["C16"], "src/engine/watcher.rs",
  "(file_name.ends_with(\".swp\") || file_name.ends_with(\".swx\"))", "file_name.ends_with(\".swp\")",
  "vim .swx temporaries trigger rebuilds (a unit test covers .swx: expected to fail the repo tests)"),
 ("watcher-unwrap-again", ["C16"], "src/engine/watcher.rs",
  "        Some(file_name) => file_name.to_string_lossy(),", "        Some(file_name) => std::borrow::Cow::Borrowed(file_name.to_str().unwrap()),",
  "F7 re-introduced"),
 ("record-named-by-bare-target-name", ["C18"], "src/engine/incremental/storage.rs",
  "join(format!(\"{}.checksums\", target))", "join(format!(\"{}.checksums\", target.id.target_name))",
  "record file named after the bare target name (harmless: one project per directory) — expected NOT reported"),
 ("aggregate-reports-no-service", ["C20", "C11"], "src/engine/target_actor/aggregate_target_actor.rs",
  "                                    actual: !dependencies[&kind].is_empty(),\n                                };\n                                self.helper.send_to_requesters(kind, msg).await",
  "                                    actual: false,\n                                };\n                                self.helper.send_to_requesters(kind, msg).await",
  "an aggregate over a service reports actual: false: zinoma exits under it"),
 ("empty-aggregate-never-acks", ["C20", "C04"], "src/engine/target_actor/aggregate_target_actor.rs",
  "                                if self.helper.unavailable_dependencies[&kind].is_empty() {\n                                    let msg = ActorInputMessage::Ok {\n                                        kind,",
  "                                if self.helper.unavailable_dependencies[&kind].is_empty() && !self.helper.dependencies.is_empty() {\n                                    let msg = ActorInputMessage::Ok {\n                                        kind,",
  "an aggregate without dependencies never acknowledges"),
]

def sh(cmd, cwd=None, timeout=3000):
    p = subprocess.run("timeout %d bash -c %s" % (timeout, json.dumps(cmd)), shell=True, cwd=cwd, stdout=subprocess.PIPE, stderr=subprocess.STDOUT, text=True)
    return p.returncode, p.stdout

def revert():
    sh("git checkout -- .", cwd=REPO)

rows = []
t00 = time.time()
revert()
for (name, ids, f, old, new, what) in M:
    if ONLY and name not in ONLY:
        continue
    if name in SKIP:
        continue
    path = os.path.join(REPO, f)
    src = open(path).read()
    if old not in src:
        rows.append((name, ids, what, "NOT APPLICABLE (pattern not found)", "", []))
        print("!! pattern not found:", name, flush=True)
        continue
    open(path, "w").write(src.replace(old, new, 1))
    t0 = time.time()
    rc, out = sh("timeout 420 cargo test --workspace --no-fail-fast --offline 2>&1 | grep -E 'test result|FAILED|error(\\[|:)' | head -8; pkill -f '%s/target/debug' 2>/dev/null; true" % REPO, cwd=REPO)
    passed = sum(int(x) for x in re.findall(r"(\d+) passed", out))
    failed = sum(int(x) for x in re.findall(r"(\d+) failed", out))
    tests = "38 pass" if (passed == 38 and failed == 0) else ("hangs / fails" if passed + failed < 38 and "error" not in out else None) or ("does not compile" if "error" in out and passed == 0 else "%d pass / %d fail" % (passed, failed))
    verdicts = []
    for i in ids:
        rc, o = sh("./check %s --tier quick" % i, cwd=V)
        fps = [l.strip()[len("fingerprint: "):] for l in o.splitlines() if l.strip().startswith("fingerprint: ")]
        v = {0: "OK (not reported)", 1: "VIOLATION", 2: "MACHINERY"}.get(rc, "rc=%d" % rc)
        verdicts.append((i, v, fps[:3]))
    revert()
    rows.append((name, ids, what, tests, "%.0fs" % (time.time() - t0), verdicts))
    print(name, tests, verdicts, flush=True)
    with open(OUT, "w") as fo:
        fo.write("| mutant | what it does | repo tests | check verdicts (first fingerprints) |\n|---|---|---|---|\n")
        for (n, ids2, w, t, d, vs) in rows:
            vv = "<br>".join("%s: **%s** %s" % (i, v, ("— " + " ; ".join(x[:110] for x in fps)) if fps else "") for (i, v, fps) in vs)
            fo.write("| `%s` | %s | %s | %s |\n" % (n, w, t, vv))
revert()
sh("./tools/build.sh", cwd=V)
print("done in %.0f s" % (time.time() - t00))
