#!/bin/bash
# tools/seed_eval.sh <SEED_ID> <demo-command-relative-to-/tmp/wtout/ID> -- <check IDs...>
# Confirms a seeded change in its scratch worktree (tests pass with it, demo fails with / passes without),
# then applies it to /repo, runs the named quick checks, and reverts /repo.
set -u
ID="$1"; shift
WT=/tmp/wt/$ID; OUT=/tmp/wtout/$ID
DEMO="$1"; shift; shift
echo "== seed $ID: confirming in $WT"
cd "$WT" || exit 2
git diff --stat | tail -1
TESTS=$(cargo test --workspace --no-fail-fast --offline 2>&1 | grep -E "test result" | tr '\n' ' ')
echo "tests with change: $TESTS"
cargo build --offline -q 2>/dev/null
cp target/debug/zinoma /tmp/wtout/$ID/zinoma.with
# (git stash is shared between worktrees of one repository: never use it here)
git diff > /tmp/wtout/$ID/.current.diff
git apply -R /tmp/wtout/$ID/.current.diff
cargo build --offline -q 2>/dev/null
cp target/debug/zinoma /tmp/wtout/$ID/zinoma.without
git apply /tmp/wtout/$ID/.current.diff
cargo build --offline -q 2>/dev/null
( cd "$OUT" && timeout 600 bash $DEMO /tmp/wtout/$ID/zinoma.with >/tmp/wtout/$ID/demo.with.log 2>&1; echo "demo with change: exit $?" )
( cd "$OUT" && timeout 600 bash $DEMO /tmp/wtout/$ID/zinoma.without >/tmp/wtout/$ID/demo.without.log 2>&1; echo "demo without change: exit $?" )
echo "== applying to /repo and running checks: $*"
cd /verif
git -C /repo apply "$OUT/patch.diff" || { echo "patch does not apply"; exit 2; }
for c in "$@"; do
  /usr/bin/time -f "  (%es)" ./check $c --tier quick 2>&1 | grep -E "^OK|^VIOLATION|fingerprint|MACHINERY|KNOWN|\(.*s\)$" | cut -c1-260
done
git -C /repo checkout -- .
./tools/build.sh
echo "== /repo reverted: $(git -C /repo status --short | wc -l) modified files"
