#!/opt/veriftools/pyvenv/bin/python
import json,sys,glob,jsonschema
ok=True
m=json.load(open('/verif/MANIFEST.json'))
jsonschema.validate(m,json.load(open('/root/.vp/MANIFEST.schema.json')))
es=json.load(open('/root/.vp/EVIDENCE.schema.json'))
for c in m['checks']:
    f='/verif/'+c['evidence_file']
    try:
        e=json.load(open(f)); jsonschema.validate(e,es)
        assert e['level']==c['level_claimed']['category'], (e['level'], c['level_claimed']['category'])
    except Exception as ex:
        ok=False; print('BAD',f,str(ex)[:300])
ids={json.loads(l)['id'] for l in open('/verif/properties.jsonl')}
claimed={c['property_id'] for c in m['checks']}; na={n['property_id'] for n in m.get('not_applicable',[])}
assert claimed|na==ids and not (claimed&na), (ids-claimed-na, claimed&na)
print('valid' if ok else 'INVALID')
