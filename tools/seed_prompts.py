#!/usr/bin/env python3
"""tools/seed_prompts.py <suffix>: write /tmp/wtout/prompt_<ID><suffix>.txt for every property — the brief given to
an independent sub-agent (property text, its scratch worktree /tmp/wt/<ID><suffix>, the list of changes already known)."""
import json, os, re, sys
suffix = sys.argv[1]
V = os.path.dirname(os.path.dirname(os.path.abspath(__file__)))
props = {json.loads(l)['id']: json.loads(l) for l in open(V + '/properties.jsonl')}
known = {}
for i in sorted(os.listdir(V + '/seeded')):
    p = V + '/seeded/%s/meta.json' % i
    if os.path.exists(p):
        m = json.load(open(p)); known.setdefault(m['property'], []).append("%s: %s" % (m['file'], m['change']))
for l in open(V + '/MUTANTS.md'):
    m = re.match(r'\| `([^`]+)` \| ([^|]+) \|', l)
    if m:
        for i in set(re.findall(r'(C\d\d): \*\*', l)):
            known.setdefault(i, []).append("(mutant) " + m.group(2).strip())
hints = {
 'C01': "src/engine/target_actor/*.rs, src/engine/mod.rs, src/config/ir.rs, src/domain.rs",
 'C02': "src/engine/incremental/**, src/fs.rs, src/domain.rs, src/async_utils.rs",
 'C03': "src/engine/incremental/**, src/config/ir.rs, src/fs.rs, src/work_dir.rs",
 'C04': "src/engine/target_actor/*.rs, src/engine/target_actors.rs, src/engine/mod.rs",
 'C05': "src/engine/incremental/mod.rs, storage.rs, src/engine/builder.rs, src/engine/target_actor/build_target_actor.rs, src/run_script.rs",
 'C06': "src/engine/target_actor/*.rs, src/engine/incremental/mod.rs, src/engine/mod.rs (watch loop), src/engine/watcher.rs",
 'C07': "src/engine/target_actor/*.rs, src/engine/builder.rs, src/engine/mod.rs, src/main.rs, src/run_script.rs",
 'C08': "src/engine/target_actor/*.rs, src/engine/target_actors.rs, src/engine/mod.rs, src/main.rs, src/config/ir.rs",
 'C09': "src/config/ir.rs, src/domain.rs, src/main.rs, src/config/yaml/mod.rs",
 'C10': "src/engine/target_actor/*.rs, src/engine/builder.rs, src/engine/target_actors.rs, src/engine/mod.rs, src/main.rs, src/termination.rs",
 'C11': "src/engine/mod.rs, src/engine/target_actor/*.rs, src/main.rs",
 'C12': "src/clean.rs, src/main.rs, src/work_dir.rs, src/engine/incremental/storage.rs, src/fs.rs",
 'C13': "src/config/ir.rs, src/domain.rs, src/engine/incremental/resources_state/*.rs, src/engine/watcher.rs",
 'C14': "src/config/yaml/mod.rs, src/config/yaml/schema.rs, src/config/ir.rs, src/main.rs, src/cli.rs",
 'C15': "src/fs.rs, src/domain.rs, src/config/ir.rs, src/work_dir.rs, src/clean.rs",
 'C16': "src/engine/watcher.rs, src/work_dir.rs, src/domain.rs, src/engine/target_actor/mod.rs",
 'C17': "src/engine/target_actors.rs, src/engine/target_actor/*.rs, src/engine/mod.rs, src/engine/builder.rs, src/engine/incremental/**",
 'C18': "src/engine/incremental/**, src/work_dir.rs, src/config/yaml/mod.rs, src/main.rs, src/config/ir.rs",
 'C19': "src/domain.rs, src/config/ir.rs, src/main.rs, src/cli.rs",
 'C20': "src/engine/target_actor/aggregate_target_actor.rs, src/engine/mod.rs, src/engine/target_actor/*.rs, src/config/ir.rs",
}
os.makedirs('/tmp/wtout', exist_ok=True)
for i, h in hints.items():
    p = props[i]; w = i + suffix
    kn = "\n".join(" - " + k for k in known.get(i, [])) or " (none yet)"
    txt = f"""You are helping test a verification framework by producing a realistic, subtle bug ("seeded change") in a Rust project. Work ONLY inside the git worktree /tmp/wt/{w} (a checkout of the project "zinoma", a small Rust incremental build/task runner: YAML targets (zinoma.yml, see README.md), async actor-based dependency scheduler in src/engine/, checksum-based skip logic in src/engine/incremental/, watch mode). Do NOT read or touch /verif or /repo. Put your deliverables in /tmp/wtout/{w}/.

The property you must break (read it carefully):

---
Property {i} — {p['title']}

Statement: {p['statement']}

Quantified over: {p['quantifier']['text']}
---

Task: make ONE small source change to zinoma (in /tmp/wt/{w}/src) that breaks this property while (a) the project still compiles (`cargo build --offline`), and (b) the existing test suite still passes: run `cargo test --workspace --no-fail-fast --offline` in /tmp/wt/{w} and confirm all 38 tests pass (21 unit + 17 integration). The sandbox has no network; always pass --offline.

The change must look like a plausible refactoring slip or logic mistake a developer could make, and it must need something SPECIFIC to manifest — a particular interleaving of messages/completions, a signal or failure at a particular point, a multi-step sequence of operations or invocations, an unusual but legitimate input, file name, tree shape or project layout, or two cooperating sites that each look fine alone. It must NOT be something that ordinary use (running any simple project once) would expose at once, and not a crash/panic on every run. Relevant code: {h} (but the change may be anywhere in src/). Go through the statement clause by clause, and through the "quantified over" list item by item, and pick a clause / item that none of the known changes below touches; prefer a function (or a file) none of them touches.

The following changes are ALREADY KNOWN — produce something genuinely DIFFERENT (a different mechanism and, where possible, a different clause of the statement; not a variation of one of these):
{kn}

Also write a demonstration that FAILS with your change and PASSES without it (on the unmodified worktree HEAD): a shell script driving the real binary (target/debug/zinoma) on a temporary project directory it generates (zinoma.yml files, input files, `build:`/`service:` shell scripts that `sleep` to force an ordering and append to a log file to observe what ran and when; signals via `kill <pid>`; `--watch` with file edits), checking exit codes, log lines and the file tree. If the manifestation is schedule-dependent, force the schedule with sleeps as reliably as you can, loop a few times, and state the observed failure rate honestly. The machine is heavily loaded by other jobs: use generous timeouts and base the verdict on causally ordered observations, not on wall-clock guesses. Verify it yourself both ways. IMPORTANT: other jobs run concurrently on this machine in sibling worktrees of the same repository: do NOT use `git stash` (the stash is shared between worktrees) — to test without your change use `git diff > /tmp/wtout/{w}/p.diff; git apply -R /tmp/wtout/{w}/p.diff; cargo build --offline; ...; git apply /tmp/wtout/{w}/p.diff`; and never `pkill zinoma` — kill only processes you started, by PID.

Deliverables in /tmp/wtout/{w}/:
 1. patch.diff — output of `git -C /tmp/wt/{w} diff` for the source change only (not the demo).
 2. demo.sh — the demonstration, runnable as `bash demo.sh /path/to/zinoma-binary`; exit code 0 = property holds, non-zero = violated. It must clean up its temporary files and processes.
 3. notes.md — what the change is, why it breaks the property (which clause), exactly what is needed for it to manifest, what you ran (commands + results: build ok, 38 tests pass, demo fails with / passes without).
Leave the worktree with the change applied (uncommitted). Keep the change minimal (a few lines). Report back a short summary."""
    os.makedirs('/tmp/wtout/' + w, exist_ok=True)
    open(f'/tmp/wtout/prompt_{w}.txt', 'w').write(txt)
print({k: len(v) for k, v in sorted(known.items())})
