#!/usr/bin/env python3
"""Generate /verif/build/lib/Cargo.toml: /repo's package compiled as a *library* from
/repo/src/main.rs (current working tree), same dependencies, no build script."""
import os, re, sys
repo = os.environ.get("ZV_REPO", "/repo")
out_dir = os.path.join(os.path.dirname(os.path.abspath(__file__)), "..", "build", "lib")
os.makedirs(out_dir, exist_ok=True)
src = open(os.path.join(repo, "Cargo.toml")).read()
# split into sections
parts = re.split(r"(?m)^(?=\[)", src)
keep = []
for part in parts:
    header = part.split("\n", 1)[0].strip()
    if header.startswith("[package]"):
        lines = [l for l in part.splitlines() if not re.match(r"\s*(build|readme)\s*=", l)]
        lines.insert(1, "build = false")
        lines.insert(1, "autobins = false")
        lines.insert(1, "autotests = false")
        lines.insert(1, "autobenches = false")
        lines.insert(1, "autoexamples = false")
        keep.append("\n".join(lines) + "\n")
    elif header.startswith("[dependencies") or (header.startswith("[target.") and "dev-dependencies" not in header and "build-dependencies" not in header):
        keep.append(part)
    # dev-dependencies, build-dependencies, package.metadata, profile: dropped
text = "".join(keep)
text += '\n[lib]\nname = "zinoma"\npath = "%s/src/main.rs"\n' % repo
target = os.path.join(out_dir, "Cargo.toml")
old = open(target).read() if os.path.exists(target) else None
if old != text:
    open(target, "w").write(text)
