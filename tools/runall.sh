#!/bin/bash
# run every quick check on the current tree; print verdict and wall time per property
cd "$(dirname "$0")/.."
./tools/build.sh || exit 2
for id in C01 C02 C03 C04 C05 C06 C07 C08 C09 C10 C11 C12 C13 C14 C15 C16 C17 C18 C19 C20; do
  s=$(date +%s.%N)
  out=$(timeout 1500 ./build/target/release/zv check $id --tier ${1:-quick} 2>&1); rc=$?
  e=$(date +%s.%N)
  printf "%s rc=%d %5.1fs %s\n" $id $rc $(echo "$e - $s" | bc) "$(echo "$out" | grep -E '^OK|^VIOLATION|MACHINERY' | head -2 | cut -c1-160 | tr '\n' ' ')"
done
