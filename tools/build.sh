#!/bin/bash
# Build (incrementally) the library view of /repo's working tree, the harness and the hooks-on binary.
set -eu
cd "$(dirname "$0")/.."
export CARGO_NET_OFFLINE=true
mkdir -p build
PWD_VERIF="$(pwd)"
python3 tools/gen_lib_manifest.py
REPO="${ZV_REPO:-/repo}"
[ -f harness/Cargo.lock ] || cp "$REPO/Cargo.lock" harness/Cargo.lock
(
  flock 9
  if ! (cd harness && cargo build --release --offline -q) >build/build-harness.log 2>&1; then
    cat build/build-harness.log; echo "harness build failed"; exit 1
  fi
  # the real binary, hooks compiled in but inert (no harness installed): used by binbox
  if ! (cd "$REPO" && RUSTFLAGS="--cfg zinoma_verif -Awarnings" cargo build --release --offline -q --target-dir "$PWD_VERIF/build/target-bin") >build/build-bin.log 2>&1; then
    cat build/build-bin.log; echo "binary build failed"; exit 1
  fi
) 9>build/.lock
