#!/bin/bash
# Run once after a fresh restore (offline): builds everything the checks need.
set -eu
cd "$(dirname "$0")"
mkdir -p build evidence replays
./tools/build.sh
echo "setup done"
